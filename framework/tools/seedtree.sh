#!/bin/bash
# seedtree.sh <seed-name>  -> scratch worktree /tmp/sv/t-<seed-name> of /repo HEAD with the seed's patch applied
S=$1; W=/tmp/sv/t-$S
git -C /repo worktree remove --force $W 2>/dev/null; rm -rf $W; git -C /repo worktree prune
git -C /repo worktree add -q --detach $W HEAD || exit 2
git -C $W apply /verif/seeded/$S/patch.diff || exit 2
echo $W
