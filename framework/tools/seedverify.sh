#!/bin/bash
# seedverify.sh <seed-dir-with-patch.diff-and-demo.sh> <id>
# Confirms a seeded change independently: applies patch.diff to a fresh scratch
# worktree of /repo HEAD, builds, runs the stock test suite, runs the demo on
# the changed tree and on a pristine tree.  Leaves /tmp/sv/<id> (changed tree,
# no build dir) for running the checks with VERIF_REPO; prints a summary.
set -u
SEED=$1; ID=$2
W=/tmp/sv/$ID; P=/tmp/sv/$ID-pristine
rm -rf $W $P; git -C /repo worktree prune
mkdir -p /tmp/sv
git -C /repo worktree add -q --detach $W HEAD || exit 2
git -C /repo worktree add -q --detach $P HEAD || exit 2
git -C $W apply $SEED/patch.diff || { echo "PATCH DOES NOT APPLY"; exit 2; }
echo "== diffstat"; git -C $W diff --stat
( cmake -S $W -B $W/_build -G Ninja >/dev/null && cmake --build $W/_build 2>&1 | tail -3 ) || { echo "BUILD FAILED"; exit 2; }
echo "== ctest (changed tree)"
ctest --test-dir $W/_build -j${J:-6} --timeout 900 2>&1 | tail -4
rm -rf $W/_build
for i in 1 2; do
echo "== demo on changed tree (run $i)"; ( cd $SEED && env -u LBZIP2 timeout 900 ./demo.sh $W >/tmp/sv/$ID.demo.changed.$i.log 2>&1; echo "exit=$?" )
done
echo "== demo on pristine tree"; ( cd $SEED && env -u LBZIP2 timeout 900 ./demo.sh $P >/tmp/sv/$ID.demo.pristine.log 2>&1; echo "exit=$?" )
rm -rf $W/_build $P/_build
git -C /repo worktree remove --force $P
echo "== done; changed tree at $W"
