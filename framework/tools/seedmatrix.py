#!/usr/bin/env python3
"""seedmatrix.py [seed ...]  --  regression of the checks against the seeded changes.

For every seed under /verif/seeded: a scratch worktree of /repo (HEAD, or the
seed's own base commit when its meta.json names one that HEAD has made
obsolete) gets patch.diff applied, and the quick tier of the seed's own
property check (plus the other checks its meta.json lists) is run against it
with VERIF_REPO / VERIF_OUT, never touching /repo or the committed evidence.
Writes /verif/seeded/MATRIX.json: seed -> {check: 'VIOLATION' | 'silent' | 'error'}.
"""
import json, os, re, subprocess, sys, shutil
VERIF = os.path.dirname(os.path.dirname(os.path.dirname(os.path.abspath(__file__))))
SEEDED = os.path.join(VERIF, 'seeded')
SCR = os.environ.get('MATRIX_SCR', '/tmp/sv/matrix')

def sh(cmd, **kw):
    return subprocess.run(cmd, shell=True, stdout=subprocess.PIPE, stderr=subprocess.STDOUT, text=True, **kw)

def main():
    seeds = sys.argv[1:] or sorted(d for d in os.listdir(SEEDED) if os.path.isdir(os.path.join(SEEDED, d)))
    os.makedirs(SCR, exist_ok=True)
    mpath = os.environ.get('MATRIX_OUT') or os.path.join(SEEDED, 'MATRIX.json')
    matrix = json.load(open(mpath)) if os.path.exists(mpath) else {}
    for s in seeds:
        d = os.path.join(SEEDED, s)
        meta = json.load(open(os.path.join(d, 'meta.json')))
        checks = [meta['property']]
        for c in meta.get('checks_that_report_it', []):
            for m in re.findall(r'\bC\d\d\b', c.split('--')[0]):
                if m not in checks:
                    checks.append(m)
        base, patch = 'HEAD', os.path.join(d, 'patch.diff')
        if os.path.exists(os.path.join(d, 'patch.orig.diff')):
            base, patch = '153202c', os.path.join(d, 'patch.orig.diff')     # seed neutralised by a later fix: test at its own base
        w = os.path.join(SCR, s)
        sh('git -C /repo worktree remove --force %s; rm -rf %s; git -C /repo worktree prune' % (w, w))
        r = sh('git -C /repo worktree add -q --detach %s %s && git -C %s apply %s' % (w, base, w, patch))
        if r.returncode:
            matrix[s] = {'error': 'patch does not apply: ' + r.stdout[-200:]}
            continue
        row = {'base': base}
        for c in checks[:3]:
            env = dict(os.environ, VERIF_REPO=w, VERIF_OUT=os.path.join(SCR, 'out-' + s), VERIF_DEADLINE='600')
            p = subprocess.run([os.path.join(VERIF, 'vcheck'), c, 'quick'], cwd=VERIF, env=env, stdout=subprocess.PIPE, stderr=subprocess.STDOUT, text=True)
            nv = p.stdout.count('VIOLATION property=')
            row[c] = 'VIOLATION (%d)' % nv if (p.returncode == 1 and nv) else ('silent' if p.returncode == 0 else 'error rc=%d: %s' % (p.returncode, p.stdout[-200:]))
            first = next((l.strip() for l in p.stdout.split('\n') if l.startswith('  ')), '')
            if nv:
                row[c + ':first'] = first[:300]
        matrix[s] = row
        print(s, {k: v for k, v in row.items() if ':' not in k}, flush=True)
        sh('git -C /repo worktree remove --force %s; rm -rf %s %s' % (w, w, os.path.join(SCR, 'out-' + s)))
        json.dump(matrix, open(mpath, 'w'), indent=1, sort_keys=True)
    sh('git -C /repo worktree prune')
    own = sum(1 for s, row in matrix.items() if any(str(v).startswith('VIOLATION') for v in row.values()))
    print('%d of %d seeds reported by at least one of their checks' % (own, len(matrix)))

if __name__ == '__main__':
    main()
