"""C15 Stored CRC fields are enforced: every bit of every stored block CRC and
stream CRC of a corpus of multi-block / multi-stream files is flipped, one at a
time, and each mutant is decompressed by the whole program for several worker
counts and input-block sizes (canonical schedule), plus a schedule exploration
of the first / middle / last CRC of some files."""
import bz2
from lib import common, bzref, bzgen, lbzx, inputs, sched
from lib.bzgen import Block

LEVEL = 'fault_enumeration'

def corpus(tier):
    out = []
    n = inputs.kind('N', 250000)
    out.append(('3blk-L1', bz2.compress(n, 1)))
    out.append(('5blk-L1', bz2.compress(inputs.kind('N', 450000, 3), 1)))
    out.append(('1blk-L9', bz2.compress(inputs.kind('T', 30000), 9)))
    out.append(('2streams', bz2.compress(inputs.kind('N', 150000, 1), 1) + bz2.compress(b'tail stream', 9)))
    out.append(('3streams+garbage', bz2.compress(b'a' * 10, 1) + bz2.compress(inputs.kind('F', 120000), 1) + bz2.compress(b'', 5)
                + bz2.compress(b'zz', 3) + b'\0\0garbage'))
    out.append(('odd-alignment', bzgen.build([([Block(b'first', surplus=3), Block(b'second block'), Block(b'third', surplus=5), Block(b'4')], 1)])[0]))
    out.append(('rand-blocks', bzgen.build([([Block(b'r' * 700 + b'x', rand=1), Block(b'plain')], 2), ([Block(b'q', rand=1)], 9)])[0]))
    if tier != 'quick':
        out.append(('3blk-random', bz2.compress(inputs.lcg(250000), 1)))
        out.append(('9blk-L1', bz2.compress(inputs.kind('N', 850000, 5), 1)))
    return out

def run(tier):
    chk = common.Check('C15', LEVEL, tier, quick_deadline=150, thorough_deadline=1200)
    quick = tier == 'quick'
    cases, meta = [], []
    nfields = 0
    configs = [(['-n1'], {}), (['-n2'], {'LBZIP2_VERIF_IN_GRANUL': '64'}), (['-n4'], {})]
    if not quick:
        configs += [(['-n3'], {'LBZIP2_VERIF_IN_GRANUL': '16', 'LBZIP2_VERIF_OUT_GRANUL': '4096'}), (['-n2', '-t'], {})]
    explore_targets = []
    for name, data in corpus(tier):
        ins = bzref.inspect(data)
        if not ins.get('valid'):
            common.harness_error('corpus file %s is not valid: %s' % (name, ins))
        ok = lbzx.batch('fast', [{'argv': ['lbzip2', '-d', '-n2'], 'stdin': data}])[0]
        if not (ok['kind'] == 'exit' and ok['code'] == 0):
            chk.violation('C15|base|' + name, 'unmodified corpus file %s is rejected: %s' % (name, ok), {'stdin_hex': data.hex()[:4000]})
            continue
        fields = []
        for si, s in enumerate(ins['streams']):
            for bi, b in enumerate(s['blocks']):
                fields.append(('stream%d.block%d.crc' % (si, bi), b['crc_bit']))
            fields.append(('stream%d.crc' % si, s['stream_crc_bit']))
        nfields += len(fields)
        def fit(env):
            # input blocks of 16/64 bytes are for small files; a large file gets blocks of 1/200 of its size, so
            # that the run stays inside the horizon of the harness
            e = dict(env)
            if 'LBZIP2_VERIF_IN_GRANUL' in e:
                e['LBZIP2_VERIF_IN_GRANUL'] = str(max(int(e['LBZIP2_VERIF_IN_GRANUL']), len(data) // 200 // 4 * 4))
            return e
        for fname, start in fields:
            for k in range(32):
                m = bzgen.flip(data, start + k)
                for args, env in configs:
                    cases.append({'argv': ['lbzip2', '-d'] + args, 'env': fit(env), 'stdin': m})
                    meta.append((name, fname, k, args, fit(env), m))
        if len(fields) >= 2:
            # first and last block CRC, the middle field, and every stream CRC (a stream CRC that is followed by
            # another stream is checked while workers may already be busy with blocks of that next stream)
            pick = [fields[0], fields[len(fields) // 2], fields[-1]] + [f for f in fields if f[0].endswith('.crc') and '.block' not in f[0]]
            pick = list(dict.fromkeys(pick))
            explore_targets.append((name, data, pick))
    res = lbzx.batch('fast', cases, timeout=120)
    distinct = set()
    for x, (name, fname, k, args, env, m) in zip(res, meta):
        distinct.add((name, fname, k))
        bad = None
        if x['sanitizer']:
            bad = 'sanitizer report'
        elif x['kind'] != 'exit':
            bad = 'ended by %s(%s)' % (x['kind'], x['code'])
        elif x['code'] != 1:
            bad = 'exit status %d' % x['code']
        elif x['stderr_len'] == 0:
            bad = 'no diagnostic'
        if bad:
            chk.violation('C15|%s|%s' % (name, fname.split('.')[-2] if 'block' in fname else 'streamcrc'),
                          'bit %d of %s of %s flipped, %s %s: %s' % (k, fname, name, ' '.join(args), env, bad),
                          {'engine': 'lbzx-batch', 'argv': ['lbzip2', '-d'] + args, 'env': env,
                           'stdin_hex': m.hex() if len(m) < 5000 else None, 'observed': x})
    chk.leg('all-bits', mutants=len(distinct), executions=len(cases), crc_fields=nfields)
    # schedules: first / middle / last CRC, one bit each, all executions with <= d deviations
    ex = sched.Explorer(chk, par=4, jobs=4)
    def orc(c):
        if c['sanitizer']:
            return 'sanitizer report'
        if c['kind'] != 'exit' or c['code'] != 1:
            return 'ended by %s(%s) instead of exit status 1' % (c['kind'], c['code'])
        if c['stderr_len'] == 0:
            return 'no diagnostic'
        return None
    # multi-stream files first: they have stream CRCs that are followed by more blocks
    explore_targets.sort(key=lambda t: (sum(1 for f in t[2] if '.block' not in f[0]) < 2, len(t[1])))
    for name, data, pick in explore_targets[: (3 if quick else 7)]:
        for fname, start in pick:
            m = bzgen.flip(data, start + 7)
            for W in (2, 3):
                for ig in ((16, 64) if len(data) < 2000 else (64,)):
                    ex.add('schedules', 'fast', ['-n%d' % W, '-d'], m, orc, '%s %s bit7 W=%d in_granul=%d' % (name, fname, W, max(ig, len(data) // 200 // 4 * 4)),
                           {'setenv': {'LBZIP2_VERIF_IN_GRANUL': str(max(ig, len(data) // 200 // 4 * 4))}})
    done = 0
    ex.run_priorities(lambda c: int(c.args[0][2:]) + 3, cells=[c for c in ex.cells if c.args[0] == '-n2'])
    for d in range(1, (1 if quick else 2) + 1):
        if not ex.run_pass(d):
            break
        done = d
    tot = ex.finish_cov('')
    chk.cov['schedule_bound_completed'] = done
    chk.cov['evaluations'] = len(cases) + tot['executions']
    chk.cov['distinct_nontrivial'] = len(distinct)
    chk.cov['rule'] = ('every bit of every stored block CRC and stream CRC field (located by the reference inspector) of %d corpus files, '
                       'one flip per mutant, x %d configurations; distinct = distinct (file, field, bit)' % (len(corpus(tier)), len(configs)))
    chk.sample({'file': meta[0][0], 'field': meta[0][1], 'bit': meta[0][2], 'args': meta[0][3], 'result': [res[0]['kind'], res[0]['code'], res[0]['stderr_head']]})
    chk.sample({'file': meta[-1][0], 'field': meta[-1][1], 'bit': meta[-1][2], 'args': meta[-1][3], 'result': [res[-1]['kind'], res[-1]['code'], res[-1]['stderr_head']]})
    chk.assumptions += ['field offsets come from the independent inspector (bzref), validated against libbz2']
    return chk.finish()
