"""C04 Block boundaries follow the greedy run-length packing rule.

Leg (b), whole program: for every output of the compression corpus the
inspector gives per block (run-length-encoded size, CRC); the reference packer
(framework/ref/refpack.c, written from the statement) run on the whole input
(--sequential) or on consecutive N*100000-byte pieces (default) must give the
same number of blocks with the same sizes and CRCs.
Leg (a), function level: collect() operation sequences (framework/codecx)."""
from lib import common, compcorpus

LEVEL = 'model_checking'

def run(tier):
    chk = common.Check('C04', LEVEL, tier, quick_deadline=170, thorough_deadline=1500)
    c = compcorpus.run_all(tier)
    n = 0
    distinct = set()
    multi = 0
    for i, m in enumerate(c['meta']):
        ins = c['insp'][i]
        if not ins.get('valid'):
            chk.violation('C04|invalid|' + m['name'], 'output of %s is not a valid stream: %s' % (m, ins.get('reason')), {'input': m})
            continue
        got = [(b['rle_len'], b['stored_crc']) for s in ins['streams'] for b in s['blocks']]
        exp = [(q, crc) for (q, crc, k) in c['packs'][(m['in_sha'], m['level'], m['mode'])]]
        n += 1
        distinct.add((m['in_sha'], m['level'], m['mode']))
        if len(exp) > 1:
            multi += 1
        if got != exp:
            j = next((k for k in range(min(len(got), len(exp))) if got[k] != exp[k]), min(len(got), len(exp)))
            chk.violation('C04|%s|%s' % (m['name'].split(':')[0], m['mode']),
                          'lbzip2 -%d %s -n%d on %s (%d bytes): %d blocks, reference packing %d; first difference at block %d: got %s, expected %s'
                          % (m['level'], m['mode'], m['W'], m['name'], m['in_len'], len(got), len(exp), j,
                             got[j] if j < len(got) else None, exp[j] if j < len(exp) else None),
                          {'engine': 'lbzx-batch', 'input': m, 'got': got[:20], 'expected': exp[:20]})
    # the same rule for FILE operands (the corpus above is fed through standard input): small files whose run-length
    # coding is longer than the file, at several levels, both modes
    import os, subprocess, hashlib
    from lib import cli, bzref, build, inputs
    rp = build.tool('refpack', ['ref/refpack.c'])
    fcases, fmeta = [], []
    small = [('AAAA', b'AAAA'), ('E40000', inputs.kind('E', 40000)), ('E90000', inputs.kind('E', 90000)), ('E199000', inputs.kind('E', 199000)),
             ('N50000', inputs.kind('N', 50000)), ('runs5', b'xxxxx' * 3000)]
    for nm, data in small:
        for lv in (1, 2, 9):
            for mode in ([], ['-u']):
                fcases.append({'argv0': 'lbzip2', 'args': ['-n2', '-%d' % lv, '-c'] + mode + ['f'], 'files': {'f': ('f', data, 0o644)}})
                fmeta.append((nm, data, lv, mode))
    fdir = common.scratch('c04f')
    for (r, fs, so), (nm, data, lv, mode) in zip(cli.run_cases(fcases), fmeta):
        pth = os.path.join(fdir, hashlib.sha1(data).hexdigest())
        open(pth, 'wb').write(data)
        cap = lv * 100000
        exp = [tuple(int(v) for v in l.split())[:2] for l in
               subprocess.run([rp, pth, str(cap), '0' if mode else str(cap)], stdout=subprocess.PIPE).stdout.decode().split('\n') if l]
        ins = bzref.inspect(so) if so else {}
        got = [(b['rle_len'], b['stored_crc']) for st_ in ins.get('streams', []) for b in st_['blocks']] if ins.get('valid') else None
        n += 1
        distinct.add((hashlib.sha1(data).hexdigest(), lv, ' '.join(mode), 'FILE'))
        if got != exp:
            chk.violation('C04|file|%s|L%d|%s' % (nm, lv, ' '.join(mode)),
                          'lbzip2 -%d %s -c FILE on %s (%d bytes): blocks %s, reference packing %s' % (lv, ' '.join(mode), nm, len(data), got and got[:6], exp[:6]),
                          {'engine': 'lbzx-batch', 'args': ['-n2', '-%d' % lv, '-c'] + mode + ['f'], 'input': nm})
    chk.leg('whole-program-file-operand', cases=len(fcases))
    chk.leg('whole-program', streams=n, distinct_inputs=len(distinct), multi_block_inputs=multi)
    chk.cov.update({'evaluations': n, 'distinct_nontrivial': len(distinct),
                    'rule': 'leg (b): every (input, level, mode) of the compression corpus; oracle: list of (RLE size, CRC) per block == reference greedy packer. '})
    chk.sample({'input': c['meta'][0], 'blocks': [(b['rle_len'], b['stored_crc']) for s in c['insp'][0].get('streams', []) for b in s['blocks']][:4]})
    k = next((i for i, m in enumerate(c['meta']) if m['name'].startswith('boundary')), 0)
    chk.sample({'input': c['meta'][k], 'blocks': [(b['rle_len'], b['stored_crc']) for s in c['insp'][k].get('streams', []) for b in s['blocks']][:4],
                'reference': c['packs'][(c['meta'][k]['in_sha'], c['meta'][k]['level'], c['meta'][k]['mode'])][:4]})
    chk.assumptions += ['reference packer refpack.c transcribes the statement of C04']
    from checks import codec_legs
    codec_legs.c04_leg_a(chk, tier)
    return chk.finish()
