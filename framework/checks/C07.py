from checks import C05
def run(tier):
    return C05.run_property('C07', tier)
