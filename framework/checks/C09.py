"""C09 Decompression result is independent of configuration and schedule.

(a) function level: retrieve() fed the block in every 1-/2-/3-piece split at
    word granularity (each piece its own exact-size allocation), emit() called
    with every composition of the output into buffer sizes (small outputs) /
    every 2-split and fixed sizes; differential oracle: the one-shot call.
(b) whole program: each stream under every input-block size, many output
    buffer sizes, W=1..4, -d / -dc / -t, read fragmentation; file output of
    the real binary; oracle: the reference verdict and bytes.
(c) schedules: all executions with <= d deviations for some streams."""
import bz2, os, subprocess
from lib import common, decdiff, bzref, bzgen, lbzx, sched, inputs, build, codecx
from lib.bzgen import Block

LEVEL = 'model_checking'

def pick_streams(tier):
    quick = tier == 'quick'
    valid, invalid = [], []
    def v(name, data): valid.append((name, data))
    def iv(name, data): invalid.append((name, data))
    three = bzgen.build([([Block(b'block one '), Block(b'second block, longer than the first'), Block(b'3rd')], 1)])[0]
    v('3blk', three)
    v('2streams+trail', bzgen.build([([Block(b'aaaaaaaaaaaaaaaaaaaabbbbbbbbbbbbbbbbbbbbbbbbbbbbb')], 1), ([Block(b'nine'), Block(b'zz')], 9)], trailing=b'\x00trailing')[0])
    v('empty', bzgen.build([([], 7)])[0])
    v('empty+1', bzgen.build([([], 7), ([Block(b'after empty')], 2)])[0])
    v('rand', bzgen.build([([Block(b'r' * 700 + b'andomised', rand=1), Block(b'plain')], 1)])[0])
    v('alpha256', bzgen.build([([Block(bytes(range(256)) + bytes(reversed(range(256))))], 1)])[0])
    v('runs', bzgen.build([([Block(b'a' * 300 + b'b' * 4 + b'c' * 5 + b'a' * 259 + b'z' * 260)], 1)])[0])
    v('6tables', bzgen.build([([Block(bytes((i * 7) % 11 for i in range(330)), tables=[bzgen.flat_code(13)] * 6,
                                    selectors=[0, 1, 2, 3, 4, 5, 5])], 1)])[0])
    v('all20bit', bzgen.build([([decdiff.all20_block(160), Block(b'next block')], 1)])[0])
    v('py-text', bz2.compress(b'The quick brown fox jumps over the lazy dog. ' * 40, 1))
    v('py-3blk', bz2.compress(inputs.kind('N', 250000), 1))
    v('py-rnd600', bz2.compress(inputs.lcg(600), 9))
    for k in (1, 4, 6):
        v('align%d' % k, bzgen.build([([Block(b'first', surplus=k), Block(b'second block')], 1)])[0])
    if not quick:
        v('py-rnd5000', bz2.compress(inputs.lcg(5000), 9))
        v('surplus', bzgen.build([([Block(b'surplus selectors', surplus=40)], 1)])[0])
        v('zeros1000', bzgen.build([([Block(L=bytes(1000), origptr=0, plain_for_crc=decdiff._unrle(bytes(1000)))], 1)])[0])
    ins = bzref.inspect(three)
    blocks = ins['streams'][0]['blocks']
    for i, b in enumerate(blocks):
        iv('3blk badcrc blk%d' % i, bzgen.flip(three, b['crc_bit'] + 9))
    iv('3blk bad stream crc', bzgen.flip(three, ins['streams'][0]['stream_crc_bit'] + 3))
    iv('3blk truncated mid', three[: len(three) // 2])
    iv('3blk truncated end', three[:-2])
    iv('3blk data flip', bzgen.flip(three, blocks[1]['bit_offset'] + 200))
    iv('3blk magic flip', bzgen.flip(three, blocks[2]['bit_offset'] + 5))
    # the documented exception: a block ending in four equal bytes without count must be rejected wherever the
    # output-buffer boundaries fall
    iv('nocount aaaa', bzgen.build([([Block(rle=b'aaaa', plain_for_crc=b'aaaa')], 1)])[0])
    iv('nocount xyzbbbb', bzgen.build([([Block(rle=b'xyzbbbb', plain_for_crc=b'xyzbbbb'), Block(b'next')], 1)])[0])
    iv('garbage', b'not a bzip2 file at all')
    iv('hdr only', b'BZh9')
    iv('overflow L1', bzgen.build([([Block(L=bytes(100001), origptr=0, plain_for_crc=b'')], 1)])[0])
    iv('2nd stream broken', bzgen.build([([Block(b'good')], 1)])[0] + b'BZh5' + bytes(20))
    return valid, invalid

def _nthr(c):
    """threads of a cell: main, reader, writer and W workers; the copy pipeline has no workers"""
    if any(a in ('-cdf',) for a in c.args) and c.leg.startswith('copy'):
        return 3
    for a in c.args:
        if a.startswith('-n') and a[2:].isdigit():
            return int(a[2:]) + 3
    return 99

def run(tier):
    chk = common.Check('C09', LEVEL, tier, quick_deadline=170, thorough_deadline=1500)
    quick = tier == 'quick'
    valid, invalid = pick_streams(tier)
    refs = bzref.batch([d for _, d in valid + invalid])
    work = common.scratch('c09')
    # ---- (a) function level
    fl = [d for (n, d), r in zip(valid + invalid, refs) if len(d) >= 14 and len(d) < 3000 and not n.startswith('py-3blk')]
    extra = [d for _, d, _ in decdiff.candidates(tier)[1] if 20 < len(d) < 120][:: (40 if quick else 8)]
    # groups of fifty 20-bit codes (1000 bits, the most the fast path of retrieve() must allow for) at every bit
    # alignment, so that a piece of input ends at every distance from the start of such a group
    extra += [bzgen.build([([decdiff.all20_block(110, k)], 1)])[0] for k in range(32)]
    st = codecx.c09(chk, tier, fl + extra)
    if st is None:
        chk.cap('function-level leg unbound')
    else:
        chk.cov['evaluations'] += st.get('retrieve_runs', 0) + st.get('emit_runs', 0)
    # ---- (b) whole program, canonical schedule
    cases, meta = [], []
    def add(name, data, ref, args, env, rfrag=0, save=False):
        cases.append({'argv': ['lbzip2'] + args, 'env': env, 'stdin': data, 'rfrag': rfrag, 'save': save})
        meta.append((name, ref, args, env, rfrag))
    for (name, data), ref in zip(valid + invalid, refs):
        L = len(data)
        isbad = not ref['ok']
        big = L > 400 or ref['out_len'] > 300
        ig_all = [4 * k for k in range(1, (L + 3) // 4 + 2)] if not big else [64, 256, 1024, 4 * ((L + 3) // 4)]
        if quick and len(ig_all) > 24:
            ig_all = ig_all[:: max(1, len(ig_all) // 24)]
        og_small = [1, 2, 3, 5, 8, 13, 21, 34] if not big else [4096]
        og_all = og_small + [max(1, ref['out_len'] - 1), max(1, ref['out_len']), ref['out_len'] + 1]
        def env(ig, og):
            e = {}
            if ig: e['LBZIP2_VERIF_IN_GRANUL'] = str(ig)
            if og: e['LBZIP2_VERIF_OUT_GRANUL'] = str(og)
            return e
        for ig in ig_all:
            for og in ((3 if not big else 4096), 0):
                for W in (1, 2):
                    add(name, data, ref, ['-d', '-n%d' % W], env(ig, og), save=isbad)
        for og in og_all:
            for ig in ((8 if not big else 256), 0):
                for W in (1, 3):
                    add(name, data, ref, ['-d', '-n%d' % W], env(ig, og), save=isbad)
        for W in (1, 2, 3, 4):
            for mode in (['-d'], ['-dc'], ['-t'], ['-dk'], ['-cdf']):
                add(name, data, ref, mode + ['-n%d' % W], env(0 if W % 2 else (16 if not big else 256), 0), save=isbad and mode != ['-t'])
        for rf in (1, 2, 3, 5, 7, 4096):
            if rf < 4 and L > 300:
                continue
            add(name, data, ref, ['-d', '-n2'], env(8 if not big else 256, 0), rfrag=rf, save=isbad)
    od = common.scratch('c09o')
    res = lbzx.batch('fast', cases, outdir=od, timeout=300)
    partial = {}
    distinct = set()
    for i, (x, (name, ref, args, envv, rf)) in enumerate(zip(res, meta)):
        distinct.add((name, tuple(args), tuple(sorted(envv.items())), rf))
        test = '-t' in args
        why = None
        if x['sanitizer']:
            why = 'sanitizer report'
        elif x['kind'] != 'exit':
            why = 'ended by %s(%s)' % (x['kind'], x['code'])
        elif ref['ok'] and not (ref['flags'] & 3):
            if x['code'] != 0:
                why = 'exit status %d for a valid stream (%s)' % (x['code'], x['stderr_head'][:60])
            elif not test and (x['stdout_len'] != ref['out_len'] or x['stdout_hash'] != ref['out_hash']):
                why = 'output differs from the reference decoding (%d bytes instead of %d)' % (x['stdout_len'], ref['out_len'])
            elif test and x['stdout_len'] != 0:
                why = '-t writes %d bytes to stdout' % x['stdout_len']
        else:
            # garbage passed through by -cdf is the one configuration-dependent case by design
            if '-cdf' in args and not ref['ok'] and ref['reason'] == 'not a bzip2 stream header':
                if x['code'] != 0:
                    why = '-cdf does not copy non-bzip2 input: status %d' % x['code']
            elif x['code'] != 1:
                why = 'exit status %d for an invalid stream' % x['code']
            elif not test:
                p = os.path.join(od, '%d.out' % i)
                if os.path.exists(p):
                    partial.setdefault(name, []).append((open(p, 'rb').read(), args, envv, rf))
        if why:
            chk.violation('C09|b|%s|%s' % (name, why[:40]), 'whole program: stream %s, lbzip2 %s env %s rfrag %d: %s' % (name, ' '.join(args), envv, rf, why),
                          {'engine': 'lbzx-batch', 'argv': ['lbzip2'] + args, 'env': envv, 'rfrag': rf,
                           'stdin_hex': dict(valid + invalid)[name].hex()[:6000]})
    # partial outputs of failing inputs must all be prefixes of one byte string
    for name, lst in partial.items():
        longest = max(lst, key=lambda t: len(t[0]))[0]
        for out, args, envv, rf in lst:
            if not longest.startswith(out):
                chk.violation('C09|b|%s|partial' % name, 'invalid stream %s: partial outputs of two configurations are not prefixes of one another (%s %s)' % (name, args, envv),
                              {'engine': 'lbzx-batch', 'argv': ['lbzip2'] + args, 'env': envv})
                break
    chk.leg('whole-program', cases=len(cases), streams=len(valid) + len(invalid), distinct_configs=len(distinct))
    # file output of the real binary
    stock = build.stock()
    for (name, data), ref in zip(valid + invalid, refs):
        d = common.scratch('c09f')
        p = os.path.join(d, 'f.bz2')
        open(p, 'wb').write(data)
        r = subprocess.run([stock, '-d', '-n2', '-k', p], stderr=subprocess.PIPE)
        out = open(p[:-4], 'rb').read() if os.path.exists(p[:-4]) else None
        chk.leg('file-output', runs=1)
        if ref['ok'] and not (ref['flags'] & 3):
            if r.returncode != 0 or out is None or len(out) != ref['out_len'] or common.fnv64(out) != ref['out_hash']:
                chk.violation('C09|file|' + name, 'real binary, FILE operand, stream %s: status %d, output %s' % (name, r.returncode, None if out is None else len(out)),
                              {'engine': 'stock', 'cmdline': '%s -d -n2 -k FILE' % stock, 'stdin_hex': data.hex()[:6000]})
        elif r.returncode != 1 or out is not None:
            chk.violation('C09|file|' + name, 'real binary, FILE operand, invalid stream %s: status %d, output file %s' % (name, r.returncode, 'left behind' if out is not None else 'absent'),
                          {'engine': 'stock', 'cmdline': '%s -d -n2 -k FILE' % stock, 'stdin_hex': data.hex()[:6000]})
    # ---- (c) schedules
    ex = sched.Explorer(chk, par=4, jobs=4)
    sel = [('3blk', 0), ('2streams+trail', 0), ('align4', 0), ('empty+1', 0), ('3blk badcrc blk1', 1), ('3blk truncated mid', 1)]
    allm = dict(valid + invalid)
    refm = {n: r for (n, _), r in zip(valid + invalid, refs)}
    for name, isbad in sel[: (4 if quick else 6)]:
        data, ref = allm[name], refm[name]
        if isbad:
            def orc(c):
                if c['sanitizer']: return 'sanitizer report'
                if c['kind'] != 'exit' or c['code'] != 1: return 'ended by %s(%s) instead of status 1' % (c['kind'], c['code'])
                return None
        else:
            plain = bzref.decode(data)['out']
            orc = sched.expect_exact(0, plain)
        for W in (2, 3):
            for envv, gn in (({}, 'stock'), ({'LBZIP2_VERIF_IN_GRANUL': '8', 'LBZIP2_VERIF_OUT_GRANUL': '7'}, 'in8/out7'),
                             ({'LBZIP2_VERIF_IN_GRANUL': '32', 'LBZIP2_VERIF_OUT_GRANUL': '64'}, 'in32/out64')):
                if quick and gn == 'stock' and W == 3:
                    continue
                ex.add('schedules', 'fast', ['-d', '-n%d' % W], data, orc, '%s W=%d %s' % (name, W, gn), {'setenv': envv})
    ex.run_priorities(_nthr, cells=[c for c in ex.cells if _nthr(c) <= (5 if quick else 6)])
    done = 0
    for d in range(1, (2 if quick else 3) + 1):
        if not ex.run_pass(d):
            break
        done = d
    chk.cov['schedule_bound_completed'] = done
    tot = ex.finish_cov('(c) every execution with <= d deviations from P0/P1/P2.')
    chk.cov['evaluations'] += len(cases)
    chk.cov['distinct_nontrivial'] += len(distinct)
    chk.cov['rule'] = ('(a) retrieve(): every 1-/2-/3-piece word split of each block; emit(): every composition of outputs <= 13 bytes, every 2-split and '
                       'fixed sizes otherwise; (b) each of %d streams x every input-block size x output buffer sizes x W x modes x read fragmentation; '
                       % (len(valid) + len(invalid))) + chk.cov['rule']
    chk.assumptions += ['for inputs that fail, exit status must agree and partial outputs must be prefixes of one another; equality of bytes is required for inputs that succeed',
                        'input/output buffer sizes are set through hook H1 (environment overrides, guard KJN_LBZIP2_VERIF)']
    return chk.finish()
