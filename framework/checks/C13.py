"""C13 Peak memory is bounded by the worker count.

Live heap bytes (every malloc/free of lbzip2 is counted by the harness) are
compared at every scheduling point of every explored execution with the
linear bound that the slot discipline allows, computed from the running
program's own slot counts and buffer sizes (vsched.c:check_invariants), and
the slot totals themselves must stay within twice the documented per-worker
constants.  In addition the peak must not grow when the input is doubled
beyond the point where the pipeline is saturated."""
import bz2
from lib import common, sched, inputs, lbzx

LEVEL = 'model_checking'

def run(tier):
    chk = common.Check('C13', LEVEL, tier, quick_deadline=170, thorough_deadline=1500)
    quick = tier == 'quick'
    ex = sched.Explorer(chk, par=4, jobs=4)
    bomb1 = bz2.compress(bytes(1000000), 1)        # 1 MB from ~45 bytes
    bomb5 = bz2.compress(bytes(5000000), 1)
    rnd = bz2.compress(inputs.lcg(100000, 9), 1)   # incompressible block
    Ws = [1, 2, 4]

    def orc_for(expected_len):
        def orc(c):
            if c['sanitizer']:
                return 'sanitizer report'
            if c['inv'] & 8:
                return 'live heap exceeds the linear bound of the slot discipline'
            if c['inv'] & 16:
                return 'slot totals exceed twice the documented per-worker constants'
            if c['inv']:
                return 'invariant broken: ' + sched.inv_text(c['inv'], c.get('note', ''))
            if c['kind'] != 'exit' or c['code'] != 0:
                return 'ended by %s(%s)' % (c['kind'], c['code'])
            if expected_len is not None and c['stdout_len'] != expected_len:
                return 'output length %d instead of %d' % (c['stdout_len'], expected_len)
            return None
        return orc

    # explored cells (schedules matter: a buffer held across a preemption)
    for W in Ws:
        w = '-n%d' % W
        for copies in ((2, 6) if quick else (1, 2, 6, 12)):
            ex.add('decompress-bomb', 'fast', [w, '-d'], bomb1 * copies, orc_for(1000000 * copies),
                   'bomb1MB x%d W=%d' % (copies, W), {'heap_limit': 1})
        ex.add('decompress-rand', 'fast', [w, '-d'], rnd * 4, orc_for(400000), 'rand100k x4 W=%d' % W, {'heap_limit': 1})
        for sp in (('ZZZZ', 'EZE') if quick else ('ZZZZ', 'EZE', 'RR', 'CZCZCZ', 'ZZZZZZZZ')):
            for mode in ([], ['-u']):
                ex.add('compress', 'fast', [w, '-1'] + mode, inputs.shape(sp), orc_for(None),
                       'shape=%s W=%d %s' % (sp, W, ' '.join(mode)), {'heap_limit': 1})
    # speculative decoding: blocks found by the scanner that the parser later rejects hold decoder state and output
    # buffers; every one of them must be given back (planted headers, complete planted blocks, bait in trailing data)
    from checks import C10
    spec = [(n, d) for n, d in C10.streams(tier) if n in ('i:two copies', 'i:both blocks', 'iii:3blk+fake block', 'iv:badcrc+bait',
                                                           'vi:carrier 3 fakes', 'vi:carrier bomb', 'vi:2 carriers', 'vi:carrier fake300')]
    def orc_spec(c):
        if c['sanitizer']:
            return 'sanitizer report'
        if c['inv'] & ~64:
            return 'invariant broken: ' + sched.inv_text(c['inv'], c.get('note', ''))
        if c['kind'] != 'exit':
            return 'ended by %s(%s)' % (c['kind'], c['code'])
        return None
    for name, data in spec:
        for W in (2, 3):
            for ig in ((32,) if quick else (16, 32, 64)):
                ex.add('decompress-speculation', 'fast', ['-n%d' % W, '-d'], data, orc_spec, '%s W=%d in_granul=%d' % (name, W, ig),
                       {'heap_limit': 1, 'setenv': {'LBZIP2_VERIF_IN_GRANUL': str(ig), 'LBZIP2_VERIF_OUT_GRANUL': '64'}})
    # canonical schedules over the whole family of streams with spurious headers x W x buffer sizes
    cases, meta = [], []
    for name, data in C10.streams(tier):
        for W in (2, 3):
            for ig in (8, 16, 32, 64):
                for og in (0, 64):
                    if og and name.startswith('v:py'):
                        continue        # a long stream with tiny buffers only exceeds the horizon of the harness
                    for pol in (0, 1, 2):
                        env = {'LBZIP2_VERIF_IN_GRANUL': str(ig)}
                        if og:
                            env['LBZIP2_VERIF_OUT_GRANUL'] = str(og)
                        cases.append({'argv': ['lbzip2', '-d', '-n%d' % W], 'env': env, 'stdin': data, 'policy': pol})
                        meta.append((name, W, ig, og, pol, data))
    nrej = 0
    for x, (name, W, ig, og, pol, data) in zip(lbzx.batch('fast', cases, timeout=120), meta):
        nrej += 1 if x['events'].get('x-reorder-reject') else 0
        if x['kind'] in ('horizon', 'timeout', 'none', 'diverge', 'unmodelled'):
            common.harness_error('C13 canonical sweep: %s on %s' % (x['kind'], name))
        if x['inv'] & ~64 or x['sanitizer'] or x['kind'] != 'exit':
            chk.violation('C13|spec-canon|%s|%d' % (name.split(':')[0], x['inv']),
                          'stream %s, -d -n%d in_granul=%d out_granul=%s policy P%d: %s(%s) %s' % (
                              name, W, ig, og or 'stock', pol, x['kind'], x['code'], sched.inv_text(x['inv']) if x['inv'] & ~64 else x['stderr_head']),
                          {'engine': 'lbzx-batch', 'argv': ['lbzip2', '-d', '-n%d' % W], 'policy': pol, 'stdin_hex': data.hex()[:8000],
                           'env': {'LBZIP2_VERIF_IN_GRANUL': str(ig), 'LBZIP2_VERIF_OUT_GRANUL': str(og)}})
    chk.leg('decompress-speculation-canonical', cases=len(cases), runs_that_rejected_a_spurious_block=nrej)
    chk.cov['evaluations'] += len(cases)
    def nthr(c):
        return int(c.args[0][2:]) + 3
    ex.run_priorities(nthr, cells=[c for c in ex.cells if nthr(c) <= (5 if quick else 6)])
    maxd = 1 if quick else 2
    done = -1
    for d in range(0, maxd + 1):
        if not ex.run_pass(d):
            break
        done = d
    chk.cov['bound_completed_all_cells'] = done

    # growth with the input: canonical schedules, -t so that nothing is written
    growth = []
    for W in Ws:
        base = None
        for copies in ((16, 32, 64) if quick else (16, 32, 64, 128)):
            if chk.left() < 20:
                chk.cap('deadline: growth runs from W=%d x%d on skipped' % (W, copies))
                break
            p = ex.file_for(bomb5 * copies)
            peaks = []
            for pol in ('P0', 'P1', 'P2'):
                r = lbzx.run('fast', ['-n%d' % W, '-t'], stdin_path=p, policy=pol, heap_limit=1, timeout=300)
                peaks.append(r['heap_peak'])
                why = orc_for(0)(dict(r, stdout_len=0))
                if why:
                    chk.violation('growth|W%d|x%d|%s|%s' % (W, copies, pol, why[:40]),
                                  'decompressing %d concatenated 5 MB zero bombs (-t, W=%d, %s): %s; peak %.1f MB, bound %.1f MB'
                                  % (copies, W, pol, why, r['heap_peak'] / 1e6, r['heap_limit'] / 1e6),
                                  {'engine': 'lbzx', 'cmdline': ' '.join(r['cmd']), 'stdin_desc': 'bz2(5e6 zeros, level 1) x %d' % copies})
            pk = max(peaks)
            growth.append({'W': W, 'copies': copies, 'decoded_MB': 5 * copies, 'peak_MB': round(pk / 1e6, 2),
                           'bound_MB': round(r['heap_limit'] / 1e6, 2)})
            chk.leg('growth', runs=3)
            if base is not None and pk > base * 1.02 + 65536:
                chk.violation('growth|W%d|x%d|grows' % (W, copies),
                              'peak heap grows with the input: %.1f MB for %d bombs vs %.1f MB for %d (W=%d)'
                              % (pk / 1e6, copies, base / 1e6, copies // 2, W),
                              {'engine': 'lbzx', 'cmdline': ' '.join(r['cmd'])})
            if copies >= 16 * W:
                base = pk if base is None else max(base, pk)
    chk.cov['growth_table'] = growth
    for units in ((24, 48) if quick else (24, 48, 96)):
        for W in Ws:
            if chk.left() < 10:
                chk.cap('deadline: compression growth runs skipped from %d units' % units)
                break
            p = ex.file_for(inputs.kind('Z', 100000) * units)
            for mode in ([], ['-u']):
                r = lbzx.run('fast', ['-n%d' % W, '-1'] + mode, stdin_path=p, heap_limit=1, timeout=300)
                why = orc_for(None)(r)
                chk.leg('growth', runs=1)
                growth.append({'W': W, 'chunks': units, 'mode': ' '.join(mode), 'peak_MB': round(r['heap_peak'] / 1e6, 2),
                               'bound_MB': round(r['heap_limit'] / 1e6, 2)})
                if why:
                    chk.violation('cgrowth|W%d|%d|%s' % (W, units, why[:40]),
                                  'compressing %d chunks (W=%d %s): %s; peak %.2f MB bound %.2f MB' % (
                                      units, W, ' '.join(mode), why, r['heap_peak'] / 1e6, r['heap_limit'] / 1e6),
                                  {'engine': 'lbzx', 'cmdline': ' '.join(r['cmd'])})
    tot = ex.finish_cov('every execution with <= d deviations and under every strict-priority scheduler; invariants: at every scheduling point live heap bytes <= '
                        'bound(W) computed from the running program (slots x buffer sizes + W x work unit); plus canonical '
                        'runs on inputs of growing size (up to 640 MB decoded from a few KB); at a successful exit no heap block may remain allocated (a block lost per compressed block grows with the input).')
    chk.cov['evaluations'] += chk.cov['legs'].get('growth', {}).get('runs', 0)
    chk.assumptions += ['live heap bytes stand in for resident memory (thread stacks are fixed; allocator fragmentation is not modelled)',
                        'the bound uses the program\'s own slot totals, which are separately required to be <= 8W in / 32W+4 out']
    return chk.finish()
