"""C03 Compressed bytes depend only on the input and the options.

For each (input, level, mode) ONE expected byte string is fixed (canonical run
with one worker, checked with libbz2) and every explored execution -- all
worker counts, schedules with <= d deviations, read()/write() fragmentation
as environment deviations and as whole-run policies, stdout and FILE operand
of the real binary -- must produce exactly it."""
import os, subprocess
from lib import common, sched, inputs, lbzx, build

LEVEL = 'model_checking'

def _nthr(c):
    """threads of a cell: main, reader, writer and W workers; the copy pipeline has no workers"""
    if any(a in ('-cdf',) for a in c.args) and c.leg.startswith('copy'):
        return 3
    for a in c.args:
        if a.startswith('-n') and a[2:].isdigit():
            return int(a[2:]) + 3
    return 99

def run(tier):
    chk = common.Check('C03', LEVEL, tier, quick_deadline=170, thorough_deadline=1700)
    ex = sched.Explorer(chk, par=4, jobs=4)
    quick = tier == 'quick'
    shapes = ['ZE', 'EZs', 'ZZZs'] if quick else ['ZE', 'EZs', 'ZZZs', 'CN', 'ZRZ', 'EE', 'Fs', '']
    Ws = [1, 2, 3] if quick else [1, 2, 3, 4]
    stock = build.stock()
    outs = set()
    groups = []
    for sp in shapes:
        data = inputs.shape(sp)
        for mode in ([], ['-u']):
            for lvl in (['-1'] if sp != 'ZE' or quick else ['-1', '-2']):
                p = ex.file_for(data)
                args1 = ['-n1', lvl] + mode
                out = p + '.' + '_'.join(args1) + '.exp'
                r = lbzx.run('fast', args1, stdin_path=p, save_stdout=out)
                exp = open(out, 'rb').read()
                desc0 = 'shape=%r %s %s' % (sp, lvl, ' '.join(mode))
                try:
                    good = r['kind'] == 'exit' and r['code'] == 0 and inputs.bunzip(exp) == data
                except Exception:
                    good = False
                if not good:
                    chk.violation('canon|' + desc0, 'canonical single-worker run does not round-trip through libbz2 [%s]' % desc0,
                                  {'engine': 'lbzx', 'cmdline': ' '.join(r['cmd'])})
                    continue
                outs.add(common.fnv64(exp))
                groups.append((sp, data, mode, lvl, exp, desc0))
                # the real binary: stdout and FILE operand
                d = common.scratch('c03f')
                fpath = os.path.join(d, 'f')
                open(fpath, 'wb').write(data)
                for W in (1, 3):
                    o1 = subprocess.run([stock, '-n%d' % W, lvl] + mode, stdin=open(fpath, 'rb'), stdout=subprocess.PIPE).stdout
                    subprocess.run([stock, '-n%d' % W, lvl, '-k', '-f'] + mode + [fpath])
                    o2 = open(fpath + '.bz2', 'rb').read() if os.path.exists(fpath + '.bz2') else None
                    os.path.exists(fpath + '.bz2') and os.unlink(fpath + '.bz2')
                    # a pipe that delivers the input in odd pieces
                    pr = subprocess.Popen([stock, '-n%d' % W, lvl] + mode, stdin=subprocess.PIPE, stdout=subprocess.PIPE)
                    import threading
                    def feed(pr=pr, data=data):
                        try:
                            for i in range(0, len(data), 7919):
                                pr.stdin.write(data[i:i + 7919]); pr.stdin.flush()
                            pr.stdin.close()
                        except BrokenPipeError:
                            pass
                    th = threading.Thread(target=feed); th.start()
                    o3 = pr.stdout.read(); pr.wait(); th.join()
                    chk.leg('real-binary', runs=3)
                    for nm, o in (('stdout', o1), ('FILE operand', o2), ('fragmented pipe', o3)):
                        if o != exp:
                            chk.violation('stock|%s|%s|W%d' % (desc0, nm, W),
                                          'real binary, %s, W=%d: output differs from the in-harness single-worker output [%s]' % (nm, W, desc0),
                                          {'engine': 'stock', 'cmdline': '%s -n%d %s %s' % (stock, W, lvl, ' '.join(mode)), 'stdin_desc': desc0})
    # inputs smaller than the block size at levels >= 2, with runs that the initial run-length coding expands:
    # stdin, FILE operand (-c and to a file) and a pipe must give the same bytes
    for lvl, n, k in ((2, 90000, 'E'), (9, 90000, 'E'), (4, 299000, 'E'), (3, 150000, 'N')) if not quick else ((2, 90000, 'E'), (9, 90000, 'E')):
        data = inputs.kind(k, n)
        d = common.scratch('c03s')
        fpath = os.path.join(d, 'f')
        open(fpath, 'wb').write(data)
        for mode in ([], ['-u']):
            base_out = subprocess.run([stock, '-n2', '-%d' % lvl] + mode, stdin=open(fpath, 'rb'), stdout=subprocess.PIPE).stdout
            o_c = subprocess.run([stock, '-n2', '-%d' % lvl, '-c'] + mode + [fpath], stdout=subprocess.PIPE).stdout
            subprocess.run([stock, '-n3', '-%d' % lvl, '-k', '-f'] + mode + [fpath])
            o_f = open(fpath + '.bz2', 'rb').read() if os.path.exists(fpath + '.bz2') else None
            os.path.exists(fpath + '.bz2') and os.unlink(fpath + '.bz2')
            o_p = subprocess.run('cat %s | %s -n1 -%d %s' % (fpath, stock, lvl, ' '.join(mode)), shell=True, stdout=subprocess.PIPE).stdout
            chk.leg('real-binary', runs=4)
            outs.add(common.fnv64(base_out))
            try:
                okb = inputs.bunzip(base_out) == data
            except Exception:
                okb = False
            for nm, o in (('stdin (libbz2 round trip)', base_out if okb else None), ('-c FILE', o_c), ('FILE operand', o_f), ('pipe', o_p)):
                if o != base_out:
                    chk.violation('stock-small|%s%d|L%d|%s|%s' % (k, n, lvl, ' '.join(mode), nm),
                                  'real binary, %d bytes of kind %s at level %d %s: %s gives different bytes than stdin input' % (n, k, lvl, ' '.join(mode), nm),
                                  {'engine': 'stock', 'cmdline': '%s -%d %s FILE vs < FILE' % (stock, lvl, ' '.join(mode))})
    # exploration cells
    for sp, data, mode, lvl, exp, desc0 in groups:
        orc = sched.expect_exact(0, exp)
        for W in Ws:
            args = ['-n%d' % W, lvl] + mode
            ex.add('sched+frag', 'fast', args, data, orc, '%s W=%d' % (desc0, W),
                   {'renv': 'short1,half', 'wenv': 'short1,half'})
    frag = sched.Explorer(chk, par=4, jobs=4, scratch=ex.dir)
    for sp, data, mode, lvl, exp, desc0 in groups:
        orc = sched.expect_exact(0, exp)
        for W in (1, 3):
            for rf, wf in ((4096, 0), (33333, 1000), (99999, 0), (100001, 7)):
                if wf == 7:
                    wf = max(7, len(exp) // 400)      # keep the number of write() calls well inside the harness horizon
                frag.add('frag-policy', 'fast', ['-n%d' % W, lvl] + mode, data, orc,
                         '%s W=%d rfrag=%d wfrag=%d' % (desc0, W, rf, wf), {'rfrag': rf, 'wfrag': wf, 'horizon': 5900})
    ex.run_priorities(_nthr, cells=[c for c in ex.cells if _nthr(c) <= (5 if quick else 6)])
    maxd = 2 if quick else 3
    done = 0
    frag.run_pass(1 if quick else 1)
    for d in range(1, maxd + 1):
        if not ex.run_pass(d):
            break
        done = d
    chk.cov['bound_completed_all_cells'] = done
    chk.cov['distinct_expected_outputs'] = len(outs)
    frag.finish_cov('')
    ex.finish_cov('executions with <= d deviations; a deviation is a scheduling choice different from the '
                  'canonical scheduler (P0/P1/P2) or a read()/write() answer different from "everything" '
                  '(1 byte, half); frag-policy cells fragment every read/write of the run. '
                  'Oracle: output bytes == the one expected string of the (input, level, mode).')
    chk.assumptions += ['libbz2 as the judge that the expected string is a valid compression of the input',
                        'deviation bound and W as reported']
    return chk.finish()
