"""C18 Multiple operands are processed independently.

All operand sequences up to a depth over an alphabet of operand kinds, per
mode, run in one invocation and compared with the effects of one invocation
per operand (differential oracle: no hand-written expected value); plus
schedule exploration of two-operand invocations, where state left behind by
the first operand (tokens, queues, parser state, signal masks) must not show
under any explored schedule."""
import bz2, itertools, os
from lib import common, cli, bzref, inputs, sched, lbzx, fsx, bzgen

LEVEL = 'model_checking'

TEXT = b'C18 small operand\n' * 30
BIG = inputs.shape('Es')[:130000]           # two blocks at level 1
RND = inputs.lcg(5000, 18)
PLAINBIG = b'plain, not bzip2: ' + inputs.lcg(200000, 21)

def alphabet(mode):
    """kind -> (suffix, fixture builder(name) -> files dict)"""
    if mode in ('z', 'zu'):
        return {
            'small': lambda n: ({n: ('f', TEXT, 0o644)}, n),
            'big': lambda n: ({n: ('f', BIG, 0o600)}, n),
            'empty': lambda n: ({n: ('f', b'', 0o644)}, n),
            'rnd': lambda n: ({n: ('f', RND, 0o644)}, n),
            'suffix': lambda n: ({n + '.bz2': ('f', TEXT, 0o644)}, n + '.bz2'),
            'hardlink': lambda n: ({n: ('f', TEXT, 0o644), n + '-link': ('h', n)}, n),
            'missing': lambda n: ({}, n),
            'dir': lambda n: ({n: ('d',)}, n),
            # skipped because the output file already exists (no -f)
            'exists': lambda n: ({n: ('f', TEXT, 0o644), n + '.bz2': ('f', b'already here\n', 0o644)}, n),
        }
    d = {
        'small': lambda n: ({n + '.bz2': ('f', bz2.compress(TEXT, 9), 0o644)}, n + '.bz2'),
        'big': lambda n: ({n + '.bz2': ('f', bz2.compress(inputs.kind('N', 250000), 1), 0o600)}, n + '.bz2'),
        'empty': lambda n: ({n + '.bz2': ('f', bz2.compress(b'', 9), 0o644)}, n + '.bz2'),
        'multi': lambda n: ({n + '.tbz': ('f', bz2.compress(b'one', 1) + bz2.compress(b'two', 5) + b'\0tail', 0o644)}, n + '.tbz'),
        'hardlink': lambda n: ({n + '.bz2': ('f', bz2.compress(TEXT, 9), 0o644), n + '-link': ('h', n + '.bz2')}, n + '.bz2'),
        'missing': lambda n: ({}, n + '.bz2'),
        'corrupt': lambda n: ({n + '.bz2': ('f', bzgen.flip(bz2.compress(TEXT * 3, 9), 333), 0o644)}, n + '.bz2'),
        'exists': lambda n: ({n + '.bz2': ('f', bz2.compress(TEXT, 9), 0o644), n: ('f', b'already here\n', 0o644)}, n + '.bz2'),
    }
    if mode == 'cdf':
        d['plain'] = lambda n: ({n: ('f', b'not bzip2 at all\n' * 5, 0o644)}, n)
        # the copy pipeline works with two 64 KiB buffers: an operand that needs several refills
        d['plainbig'] = lambda n: ({n: ('f', PLAINBIG, 0o644)}, n)
        d['plain64k'] = lambda n: ({n: ('f', PLAINBIG[:65536], 0o644)}, n)
    return d

MODES = {'z': ['-z'], 'zu': ['-z', '-u'], 'd': ['-d'], 'dc': ['-d', '-c'], 't': ['-t'], 'cdf': ['-c', '-d', '-f'], 'zk': ['-z', '-k']}

def run(tier):
    chk = common.Check('C18', LEVEL, tier, quick_deadline=170, thorough_deadline=1500)
    quick = tier == 'quick'
    depth = 2 if quick else 3
    cases, meta = [], []
    for mode, margs in MODES.items():
        alpha = alphabet(mode)
        kinds = list(alpha)
        for W in ((1, 3) if not quick else (2,)):
            seqs = []
            for n in range(1, depth + 1):
                it = list(itertools.product(kinds, repeat=n))
                if n == 3:
                    it = [s for s in it if len(set(s)) >= 2][:: 3]
                seqs += it
            for seq in seqs:
                files, names = {}, []
                for i, k in enumerate(seq):
                    fx, nm = alpha[k]('op%d' % i)
                    files.update(fx)
                    names.append(nm)
                cases.append({'argv0': 'lbzip2', 'args': ['-n%d' % W] + margs + names, 'files': files})
                meta.append({'mode': mode, 'W': W, 'seq': seq, 'names': names, 'files': files})
    outs = cli.run_cases(cases)
    # index of the single-operand runs: (mode, W, kind, position name) -> effect
    single = {}
    for (r, fs, so), m in zip(outs, meta):
        if len(m['seq']) == 1:
            single[(m['mode'], m['W'], m['seq'][0])] = (r, fs, so, m)
    def rename(fsd, i):
        return {n.replace('op0', 'op%d' % i): e for n, e in fsd.items()}
    n_cmp = 0
    distinct = set()
    for (r, fs, so), m in zip(outs, meta):
        distinct.add((m['mode'], m['seq']))
        if r['kind'] == 'exit' and r['inv'] & (256 | 1024 | 2048):
            chk.violation('C18|inv|%s|%d' % (m['mode'], r['inv'] & (256 | 1024 | 2048)), 'lbzip2 %s: %s' % (
                ' '.join(cases[meta.index(m)]['args']), 'invariant broken: ' + sched.inv_text(r['inv'] & (256 | 1024 | 2048))),
                {'engine': 'lbzx-batch', 'seq': m['seq'], 'mode': m['mode']})
            continue
        if r['sanitizer'] or r['kind'] != 'exit':
            chk.violation('C18|abnormal|%s|%s' % (m['mode'], r['kind']), 'lbzip2 %s: run ends with %s(%s) %s' % (
                ' '.join(cases[meta.index(m)]['args']), r['kind'], r['code'], r['stderr_head']), {'engine': 'lbzx-batch', 'seq': m['seq'], 'mode': m['mode']})
            continue
        if len(m['seq']) == 1:
            continue
        n_cmp += 1
        exp_fs, exp_out, status, fatal_at = {}, b'', 0, None
        for i, k in enumerate(m['seq']):
            r1, fs1, so1, m1 = single[(m['mode'], m['W'], k)]
            before_i = rename({n: None for n in m1['files']}, i)
            if fatal_at is not None:
                # untouched: what was prepared stays
                for n, spec in alphabet(m['mode'])[k]('op%d' % i)[0].items():
                    exp_fs[n] = ('untouched', spec)
                continue
            for n, e in rename(fs1, i).items():
                exp_fs[n] = ('after', e)
            if r1['code'] == 1:
                fatal_at = i
                status = 1
            else:
                exp_out += so1
                if r1['code'] == 4 and status == 0:
                    status = 4
        why = None
        if r['code'] != status:
            why = 'exit status %d, separate invocations give %d' % (r['code'], status)
        else:
            names_exp = set(exp_fs)
            if set(fs) != names_exp:
                why = 'directory holds %s, separate invocations leave %s' % (sorted(fs), sorted(names_exp))
            else:
                for n, (kind, e) in exp_fs.items():
                    a = fs[n]
                    if kind == 'after':
                        if (a['type'], a.get('hash'), a.get('mode')) != (e['type'], e.get('hash'), e.get('mode')):
                            if fatal_at is not None and n.startswith('op%d' % fatal_at):
                                continue
                            why = 'file %s differs from what a separate invocation leaves' % n
                            break
                    else:
                        if e[0] == 'f' and (a['type'] != 'f' or a.get('data') != e[1] if len(e[1]) <= 4096 else a['size'] != len(e[1])):
                            why = 'operand %s after the fatal one was touched' % n
                            break
            if why is None:
                if fatal_at is None and so != exp_out:
                    why = 'stdout (%d bytes) differs from the concatenation of the separate outputs (%d bytes)' % (len(so), len(exp_out))
                elif fatal_at is not None and not so.startswith(exp_out):
                    why = 'stdout does not start with the outputs of the operands before the fatal one'
        if why:
            chk.violation('C18|%s|%s' % (m['mode'], '-'.join(m['seq'])[:40]),
                          'lbzip2 %s with operands %s: %s [stderr: %s]' % (' '.join(MODES[m['mode']]), list(m['seq']), why, r['stderr_head'][:100]),
                          {'engine': 'lbzx-batch', 'args': cases[meta.index(m)]['args'], 'seq': list(m['seq'])})
    chk.leg('operand-sequences', invocations=len(cases), compared=n_cmp)
    # ---- schedules of two-operand invocations
    ex = sched.Explorer(chk, par=4, jobs=4)
    root = common.scratch('c18s')
    def cell(name, args, files, expect_out, expect_status=0, allow_inv=0):
        t = os.path.join(root, 't' + name); w = os.path.join(root, 'w' + name)
        os.makedirs(t); os.makedirs(w)
        for fn, data in files.items():
            fsx.make_file(os.path.join(t, fn), data, 0o644)
        def orc(c):
            if c['sanitizer']: return 'sanitizer report'
            if c['kind'] != 'exit' or c['code'] != expect_status: return 'ends with %s(%s) instead of status %d' % (c['kind'], c['code'], expect_status)
            if c['inv'] & ~64 & ~allow_inv: return 'invariant broken: ' + sched.inv_text(c['inv'] & ~64 & ~allow_inv, c.get('note', ''))
            if expect_out is not None and (c['stdout_len'] != len(expect_out) or c['stdout_hash'] != common.fnv64(expect_out)):
                return 'stdout differs from the concatenation of the outputs of separate runs'
            return None
        ex.add('schedules', 'fast', args, None, orc, name, {'fs_template': t, 'fs_work': w})
    small2 = inputs.kind('T', 20000)
    c1 = lbzx.batch('fast', [{'argv': ['lbzip2', '-1', '-n2'], 'stdin': x} for x in (TEXT, small2, b'')])
    outs1 = cli.run_cases([{'args': ['-1', '-n2'], 'stdin': x, 'files': None} for x in (TEXT, small2, b'')])
    oa, ob, oe = outs1[0][2], outs1[1][2], outs1[2][2]
    cell('zc-2', ['-n2', '-1', '-c', 'a', 'b'], {'a': TEXT, 'b': small2}, oa + ob)
    cell('zc-u-2', ['-n2', '-1', '-u', '-c', 'b', 'a'], {'a': TEXT, 'b': small2}, None)
    cell('zc-empty-first', ['-n2', '-1', '-c', 'e', 'a'], {'a': TEXT, 'e': b''}, oe + oa)
    cell('dc-2', ['-n2', '-d', '-c', 'a.bz2', 'b.bz2'], {'a.bz2': bz2.compress(TEXT, 9), 'b.bz2': bz2.compress(inputs.kind('N', 250000), 1)}, TEXT + inputs.kind('N', 250000))
    cell('cdf-copy-then-bz', ['-n2', '-c', '-d', '-f', 'p', 'a.bz2'], {'p': b'plain file\n', 'a.bz2': bz2.compress(TEXT, 9)}, b'plain file\n' + TEXT, allow_inv=4)
    cell('cdf-bz-then-bigcopy', ['-n2', '-c', '-d', '-f', 'a.bz2', 'p'], {'p': PLAINBIG, 'a.bz2': bz2.compress(TEXT, 9)}, TEXT + PLAINBIG, allow_inv=4)   # copy mode: out_slots is a plain counter of buffers in flight
    cell('cdf-copy-copy', ['-n2', '-c', '-d', '-f', 'p', 'q'], {'p': PLAINBIG[:70000], 'q': PLAINBIG[:140000]}, PLAINBIG[:70000] + PLAINBIG[:140000], allow_inv=4)
    cell('t-2', ['-n2', '-t', 'a.bz2', 'b.bz2'], {'a.bz2': bz2.compress(TEXT, 9), 'b.bz2': bz2.compress(small2, 1)}, b'')
    cell('skip-then-valid', ['-n2', '-d', '-c', 'nope.bz2', 'a.bz2'], {'a.bz2': bz2.compress(TEXT, 9)}, TEXT, 4)
    done = 0
    for d in range(1, (1 if quick else 2) + 1):
        if not ex.run_pass(d):
            break
        done = d
    chk.cov['schedule_bound_completed'] = done
    tot = ex.finish_cov('schedules: every execution with <= d deviations of two-operand invocations.')
    chk.cov['evaluations'] += len(cases)
    chk.cov['distinct_nontrivial'] += len(distinct)
    chk.cov['rule'] = ('operand sequences up to depth %d over the kinds %s (compress) / %s (decompress) for modes %s; oracle: status, stdout and every file == '
                       'what one invocation per operand leaves, up to the first fatal operand; ' % (depth, list(alphabet('z')), list(alphabet('d')), list(MODES))) + chk.cov['rule']
    chk.assumptions += ['the partial standard output of a fatal operand is not compared']
    return chk.finish()
