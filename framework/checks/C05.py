"""C05 / C06 / C07: decompression soundness, completeness, clean rejection.

One bounded-exhaustive enumeration (lib/decdiff.py): valid streams built bit by
bit with every degree of freedom of the format, plus all their single-bit and
truncation mutants; each candidate is run through the whole lbzip2 program (two
configurations) and through the independent strict reference decoder, which is
itself cross-checked against libbz2 on every candidate."""
import sys
from lib import common, decdiff, bzref, lbzx, build

LEVEL = 'exploration'

def oracle_C05(x, v):
    if x['kind'] == 'exit' and x['code'] == 0:
        if not v['ok']:
            return 'lbzip2 -d exits 0 but the input is not valid: ' + v['reason']
        if v['out_len'] != x['stdout_len'] or v['out_hash'] != x['stdout_hash']:
            return 'lbzip2 -d exits 0 but writes bytes that differ from the reference decoding'
    return None

def oracle_C06(x, v):
    if v['ok'] and not (v['flags'] & (bzref.F_INCOMPLETE_USED | bzref.F_MISSING_RUNLEN)):
        if not (x['kind'] == 'exit' and x['code'] == 0):
            return 'conforming stream rejected: %s(%s) %s' % (x['kind'], x['code'], x['stderr_head'][:80])
        if v['out_len'] != x['stdout_len'] or v['out_hash'] != x['stdout_hash']:
            return 'conforming stream decoded to wrong bytes'
        if x['stderr_len']:
            return 'diagnostic printed for a conforming stream: ' + x['stderr_head'][:80]
    return None

def oracle_C07(x, v):
    if not v['ok'] or (v['flags'] & (bzref.F_INCOMPLETE_USED | bzref.F_MISSING_RUNLEN)):
        if x['kind'] != 'exit':
            return 'invalid input: ended by %s(%s) instead of exit status 1 %s' % (x['kind'], x['code'], x['stderr_head'][:80])
        if x['code'] != 1:
            return 'invalid input (%s): exit status %d instead of 1' % (v['reason'] or 'documented exception', x['code'])
        if x['stderr_len'] == 0:
            return 'invalid input rejected without a diagnostic'
    return None

ORACLES = {'C05': oracle_C05, 'C06': oracle_C06, 'C07': oracle_C07}

def family(desc):
    """Fingerprint of a failing case: base-stream family + kind of deviation,
    so that one defect is one finding and a different one is still reported."""
    base = desc.split(' ^')[0].split(' [:')[0]
    fam = base.split(':')[0]
    if fam == 'G':
        # G:len1 t0 s1 [-1, 1] before   -> excursion below / above
        if 'start' in base:
            return 'G:start-out-of-range'
        return 'G:excursion'
    return base

def run_property(pid, tier, extra=None):
    chk = common.Check(pid, LEVEL if pid != 'C07' else 'fault_enumeration', tier, quick_deadline=170, thorough_deadline=1500)
    r = decdiff.run_all(tier)
    cands, ref = r['cands'], r['ref']
    orc = ORACLES[pid]
    relevant = 0
    nontrivial = set()
    accepted = 0
    for cname, res in r['res'].items():
        for i, x in enumerate(res):
            v = ref[i]
            if x['sanitizer']:
                chk.violation('%s|sanitizer|%s' % (pid, family(cands[i][0])), 'sanitizer report on %s: %s' % (cands[i][0], x['stderr_head']),
                              {'engine': 'lbzx-batch', 'config': cname, 'stdin_hex': cands[i][1].hex()[:8192], 'desc': cands[i][0]})
            if x['kind'] in ('diverge', 'unmodelled', 'inconsistent', 'none', 'horizon'):
                common.harness_error('%s on %s: %s' % (cname, cands[i][0], x))
            why = orc(x, v)
            applies = {'C05': x['kind'] == 'exit' and x['code'] == 0,
                       'C06': v['ok'] and not (v['flags'] & 3),
                       'C07': (not v['ok']) or bool(v['flags'] & 3)}[pid]
            if applies:
                relevant += 1
                if v['ok'] or v['reason'] not in ('not a bzip2 stream header', 'empty input'):
                    nontrivial.add(i)
            if why:
                key = '%s|%s' % (pid, family(cands[i][0]))
                data = cands[i][1]
                chk.violation(key, '%s [%s] input=%s (%d bytes): %s' % (cname, cands[i][0], data.hex()[:120], len(data), why),
                              {'engine': 'lbzx-batch', 'config': cname, 'argv': ['lbzip2', '-d'],
                               'stdin_hex': data.hex() if len(data) <= 8192 else None, 'desc': cands[i][0],
                               'reference': v, 'observed': {k: x[k] for k in ('kind', 'code', 'stdout_len', 'stdout_hash', 'stderr_head')},
                               'cmdline': 'printf %s | xxd -r -p | %s -d -n1 | xxd | head' % (data.hex()[:2000], build.stock())})
    cross_bad = [(cands[i][0], c) for i, c in enumerate(r['cross']) if c]
    for d, c in cross_bad[:5]:
        # the reference decoder disagrees with libbz2: the oracle is in doubt
        common.harness_error('reference decoder vs libbz2 on %s: %s' % (d, c))
    chk.cov['evaluations'] = len(cands) * len(r['res'])
    chk.cov['distinct_nontrivial'] = len(nontrivial)
    chk.cov['rule'] = ('candidates = %d generator-built base streams (families A..J of lib/decdiff.py) + every single-bit flip and every '
                       'truncation of the small ones, field-aware flips/truncations of the others; distinct by content; non-trivial = '
                       'relevant to this property and reaching block parsing (not rejected at the first stream header)' % r['nbase'])
    chk.cov['base_streams'] = r['nbase']
    chk.cov['candidates'] = len(cands)
    chk.cov['configurations'] = list(r['res'].keys())
    chk.cov['relevant_evaluations'] = relevant
    chk.cov['reference_accepts'] = sum(1 for v in ref if v['ok'])
    chk.cov['reference_rejects'] = sum(1 for v in ref if not v['ok'])
    chk.cov['oracle_crosschecked_with_libbz2'] = len(cands)
    chk.cov['results_reused_from_cache_of_same_tree'] = bool(r.get('cached'))
    import collections
    chk.cov['reject_reasons'] = dict(collections.Counter(v['reason'].split(' in table')[0][:40] for v in ref if not v['ok']).most_common(12))
    for i in (0, len(cands) // 3, len(cands) // 2, len(cands) - 1):
        chk.sample({'candidate': cands[i][0], 'hex': cands[i][1].hex()[:96], 'reference': ref[i],
                    'lbzip2': {c: (res[i]['kind'], res[i]['code'], res[i]['stdout_len']) for c, res in r['res'].items()}})
    chk.assumptions += ['bzref (framework/bzref/bzref.c) is the strict reference; it agreed with libbz2 on every candidate of this run',
                        'scope: streams within one bit-level deviation or one truncation of a generator-built valid stream',
                        'canonical schedule only (schedule independence is C09/C10)']
    if extra:
        extra(chk, r)
    return chk.finish()

def run(tier):
    return run_property('C05', tier)
