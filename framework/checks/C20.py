"""C20 Prefix tables are optimal for the symbols they code.

Leg (b): for every block written by the compression corpus the inspector
recovers, per table, the code lengths and how often each symbol was coded with
it; the total coded length must equal the optimum over all complete prefix
codes no longer than the table's longest code (independent package-merge on
sorted lists, validated against exhaustive search in this very run).
Leg (a): function level, see framework/codecx (added by codec harness)."""
from lib import common, compcorpus, refhuff

LEVEL = 'exploration'

def run(tier):
    chk = common.Check('C20', LEVEL, tier, quick_deadline=170, thorough_deadline=1500)
    st = refhuff.selftest(5, 4, (2, 3, 4)) if tier == 'quick' else refhuff.selftest(6, 4, (2, 3, 4, 5))
    if not isinstance(st, int):
        common.harness_error('reference model self-test failed: ' + st)
    chk.leg('reference-selftest', cases=st)
    c = compcorpus.run_all(tier)
    ntab = 0
    distinct = set()
    maxlen_seen = 0
    limited = 0
    for i, m in enumerate(c['meta']):
        ins = c['insp'][i]
        if not ins.get('valid'):
            continue
        for s in ins['streams']:
            for bi, b in enumerate(s['blocks']):
                for ti, t in enumerate(b['table']):
                    if max(t['len']) > 20:
                        chk.violation('C20|len>20', 'code longer than 20 bits in %s block %d table %d' % (m['name'], bi, ti), {'input': m})
                    if not t['used']:
                        continue
                    ntab += 1
                    key = (tuple(t['count']), tuple(t['len']))
                    if key in distinct:
                        continue
                    distinct.add(key)
                    L = t['maxlen']
                    maxlen_seen = max(maxlen_seen, L)
                    opt = refhuff.optimal_cost(t['count'], L)
                    unl = refhuff.optimal_cost(t['count'], 24) if len(t['count']) <= (1 << 20) else None
                    if unl is not None and opt is not None and opt > unl:
                        limited += 1
                    if opt is None or t['cost'] != opt:
                        chk.violation('C20|subopt|%s' % m['name'].split(':')[0],
                                      'table %d of block %d of lbzip2 -%d %s on %s codes its symbols in %d bits; the optimum with codes of at most %d bits is %s '
                                      '(counts %s lengths %s)' % (ti, bi, m['level'], m['mode'], m['name'], t['cost'], L, opt, t['count'][:40], t['len'][:40]),
                                      {'input': m, 'table': t})
    chk.cov.update({
        'evaluations': ntab, 'distinct_nontrivial': len(distinct),
        'rule': 'every table used by at least one group in every block of every output of the compression corpus; distinct = distinct '
                '(symbol counts, code lengths) pairs; oracle: sum count*length == package-merge optimum for limit = longest code of the table',
        'longest_code_seen': maxlen_seen, 'tables_where_the_length_limit_binds': limited,
        'results_reused_from_cache_of_same_tree': bool(c.get('cached')),
    })
    k = list(distinct)
    for key in k[:2] + k[-2:]:
        chk.sample({'counts': list(key[0])[:30], 'lengths': list(key[1])[:30]})
    chk.assumptions += ['symbol counts are recovered from the stream by the independent inspector',
                        'reference optimum: package-merge on sorted lists, validated against exhaustive search for alphabets <= 5 (6)']
    from checks import codec_legs
    codec_legs.c20_leg_a(chk, tier)
    return chk.finish()
