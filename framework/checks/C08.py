"""C08 No undefined behaviour for any input.

Not a separate exploration: the enumerations of C01(a), C04(a), C09(a), C14,
C20(a) (function-level harnesses), of C05-C07 (decompression candidates,
whole program) and of C01(b)/C02 (compression corpus, whole program) are
re-run in AddressSanitizer+UBSan builds, and the function-level harnesses
additionally under MemorySanitizer.  Any sanitizer report is a violation."""
import time
from lib import common, codecx, decdiff, compcorpus, build, bzref

LEVEL = 'exploration'

def run(tier):
    chk = common.Check('C08', LEVEL, tier, quick_deadline=280, thorough_deadline=2400)
    total = 0
    distinct = 0
    # whole program, decompression candidates
    r = decdiff.run_all(tier, variant='asan')
    n = 0
    for cname, res in r['res'].items():
        for i, x in enumerate(res):
            n += 1
            if x['sanitizer'] or x['kind'] in ('crash', 'rawexit'):
                d = r['cands'][i]
                chk.violation('C08|decompress|%s' % x['stderr_head'].split(' on ')[0][:60],
                              'decompressing candidate %s (%s): %s(%s) %s' % (d[0], cname, x['kind'], x['code'], x['stderr_head']),
                              {'engine': 'lbzx-batch', 'variant': 'asan', 'argv': ['lbzip2', '-d'], 'stdin_hex': d[1].hex()[:8000]})
    chk.leg('decompress-asan', executions=n, candidates=len(r['cands']))
    total += n
    distinct += len(r['cands'])
    # whole program, compression corpus
    if chk.left() > 60:
        c = compcorpus.run_all(tier, variant='asan')
        for i, m in enumerate(c['meta']):
            for which, x in (('compress', c['res'][i]), ('decompress', c['dres'][i])):
                if x['sanitizer'] or x['kind'] in ('crash', 'rawexit'):
                    chk.violation('C08|%s|%s' % (which, x['stderr_head'].split(' on ')[0][:60]),
                                  '%s of %s (%s): %s(%s) %s' % (which, m['name'], m, x['kind'], x['code'], x['stderr_head']),
                                  {'engine': 'lbzx-batch', 'variant': 'asan', 'input': m})
        chk.leg('compress-asan', roundtrips=len(c['meta']))
        total += 2 * len(c['meta'])
        distinct += len(c['meta'])
    else:
        chk.cap('deadline: compression corpus not run under ASan')
    # function level, ASan+UBSan and MSan
    valid = [d for (_, d, _), v in zip(r['cands'], r['ref']) if v['ok'] and len(d) < 400][:: 3]
    some_bad = [d for (_, d, _), v in zip(r['cands'], r['ref']) if not v['ok'] and 30 < len(d) < 200][:: 60]
    for variant in ('asan', 'msan'):
        for leg, extra in (('c14', None), ('c20', None), ('c01', None), ('c04', None), ('c09', valid + some_bad)):
            if chk.left() < 40:
                chk.cap('deadline: function-level leg %s/%s not run' % (leg, variant))
                continue
            if leg == 'c09':
                st = codecx.c09(chk, 'quick', extra, variant=variant)
            else:
                st = codecx._apply(chk, 'C08', 'quick' if (variant == 'msan' or tier == 'quick') else tier, leg, variant=variant)
            if st:
                k = {'c14': 'scan_calls', 'c20': 'vectors', 'c01': 'inputs', 'c04': 'sequences', 'c09': 'retrieve_runs'}[leg]
                total += st.get(k, 0)
                distinct += st.get(k, 0)
                chk.leg('function-level-%s-%s' % (variant, leg), cases=st.get(k, 0), wall_s=st.get('wall_s'))
    chk.cov.update({'evaluations': total, 'distinct_nontrivial': distinct,
                    'rule': 'the candidate sets of C05-C07 (x2 configurations), the compression corpus of C01/C02 (compress + decompress) under ASan+UBSan '
                            'whole-program builds; the function-level enumerations of C01/C04/C09/C14/C20 under ASan+UBSan and under MSan; '
                            'oracle: no sanitizer report, no crash'})
    chk.sample({'decompress_candidates': len(r['cands']), 'first': r['cands'][0][0], 'last': r['cands'][-1][0]})
    chk.assumptions += ['sanitizers only see what the enumerated inputs execute; inputs outside the scopes are not covered',
                        'whole-program runs are not MSan-built (libc parts would need instrumenting); the codec harnesses run the same codec code']
    return chk.finish()
