"""C08 No undefined behaviour for any input.

Not a separate exploration: the enumerations of C01(a), C04(a), C09(a), C14,
C20(a) (function-level harnesses), of C05-C07 (decompression candidates,
whole program) and of C01(b)/C02 (compression corpus, whole program) are
re-run in AddressSanitizer+UBSan builds, and the function-level harnesses
additionally under MemorySanitizer.  Any sanitizer report is a violation."""
import time, os
from lib import common, codecx, decdiff, compcorpus, build, bzref

LEVEL = 'exploration'

def run(tier):
    chk = common.Check('C08', LEVEL, tier, quick_deadline=280, thorough_deadline=2400)
    total = 0
    distinct = 0
    quick = tier == 'quick'
    # function level, ASan+UBSan and MSan: ten single-threaded harness runs, started now and
    # collected at the end; they share the machine with the whole-program batches below
    from concurrent.futures import ThreadPoolExecutor
    r0 = decdiff.candidates(tier)[1]
    pool = ThreadPoolExecutor(max_workers=12)
    futs = {}
    def fn_leg(variant, leg, extra_streams):
        try:
            x = codecx.exe(variant)           # build (cached) outside the timing
        except build.BuildError as e:
            return None, [], str(e)[-1500:]
        if leg == 'c09':
            d = common.scratch('c08s')
            p = os.path.join(d, 'streams.%s.bin' % variant)
            codecx.write_streams(p, extra_streams)
            return codecx.run_leg('c09', 'quick', variant, [p], timeout=max(10, chk.left() - 15))
        # quick tier: the reduced 'san' scopes (sanitizer builds are 3-10x slower); thorough: the quick scopes
        return codecx.run_leg(leg, 'san' if quick else 'quick', variant, timeout=max(10, chk.left() - 15))
    # streams for the retrieve/emit split leg: valid ones and some invalid ones of the candidate set
    refq = bzref.batch([d for _, d, _ in r0])
    valid = [d for (_, d, _), v in zip(r0, refq) if v['ok'] and len(d) < 400][:: (12 if quick else 3)]
    some_bad = [d for (_, d, _), v in zip(r0, refq) if not v['ok'] and 30 < len(d) < 200][:: (240 if quick else 60)]
    # groups of fifty 20-bit codes at every bit alignment (see C09): the fast path of retrieve() at its limit
    from lib import bzgen
    aligned20 = [bzgen.build([([decdiff.all20_block(110, k)], 1)])[0] for k in range(0, 32, (2 if quick else 1))]
    for variant in ('asan', 'msan'):
        for leg in ('c14', 'c20', 'c01', 'c04', 'c09', 'bwt'):
            futs[(variant, leg)] = pool.submit(fn_leg, variant, leg, valid + some_bad + aligned20)
    # whole program, decompression candidates
    r = decdiff.run_all(tier, variant='asan')
    n = 0
    for cname, res in r['res'].items():
        for i, x in enumerate(res):
            n += 1
            if x['sanitizer'] or x['kind'] in ('crash', 'rawexit') or (x['inv'] & 256):
                d = r['cands'][i]
                chk.violation('C08|decompress|%s' % x['stderr_head'].split(' on ')[0][:60],
                              'decompressing candidate %s (%s): %s(%s) %s%s' % (d[0], cname, x['kind'], x['code'], x['stderr_head'],
                                                                               ' [heap block overrun]' if x['inv'] & 256 else ''),
                              {'engine': 'lbzx-batch', 'variant': 'asan', 'argv': ['lbzip2', '-d'], 'stdin_hex': d[1].hex()[:8000]})
    chk.leg('decompress-asan', executions=n, candidates=len(r['cands']))
    total += n
    distinct += len(r['cands'])
    # whole program, compression corpus
    if chk.left() > 60:
        c = compcorpus.run_all(tier, variant='asan')
        for i, m in enumerate(c['meta']):
            for which, x in (('compress', c['res'][i]), ('decompress', c['dres'][i])):
                if x['sanitizer'] or x['kind'] in ('crash', 'rawexit') or (x['inv'] & 256):
                    chk.violation('C08|%s|%s' % (which, x['stderr_head'].split(' on ')[0][:60]),
                                  '%s of %s (%s): %s(%s) %s%s' % (which, m['name'], m, x['kind'], x['code'], x['stderr_head'],
                                                                  ' [heap block overrun]' if x['inv'] & 256 else ''),
                                  {'engine': 'lbzx-batch', 'variant': 'asan', 'input': m})
        chk.leg('compress-asan', roundtrips=len(c['meta']))
        total += 2 * len(c['meta'])
        distinct += len(c['meta'])
    else:
        chk.cap('deadline: compression corpus not run under ASan')
    # collect the function-level legs
    for (variant, leg), f in futs.items():
        try:
            stats, viols, raw = f.result(timeout=max(5, chk.left() - 5))
        except Exception as e:
            chk.cap('deadline: function-level leg %s/%s did not finish (%s)' % (leg, variant, type(e).__name__))
            continue
        name = 'function-level-%s-%s' % (variant, leg)
        if stats is None:
            chk.leg(name, status='unbound: harness does not compile against this tree', detail=raw[-300:])
            continue
        if stats.get('timeout'):
            chk.cap('deadline: function-level leg %s/%s stopped after %s s' % (leg, variant, stats.get('wall_s')))
            continue
        k = {'c14': 'scan_calls', 'c20': 'vectors', 'c01': 'inputs', 'c04': 'sequences', 'c09': 'retrieve_runs', 'bwt': 'strings'}[leg]
        chk.leg(name, cases=stats.get(k, 0), wall_s=stats.get('wall_s'), exit=stats.get('exit'))
        total += stats.get(k, 0)
        distinct += stats.get(k, 0)
        for v in viols[:8]:
            chk.violation('C08|fn|%s|%s|%s' % (variant, leg, v.split(':')[0][:60]), 'C08 function-level %s (%s build): %s' % (leg, variant, v),
                          {'engine': 'codecx', 'variant': variant, 'cmdline': '%s %s quick' % (codecx.exe(variant), leg)})
    pool.shutdown(wait=False)
    chk.cov.update({'evaluations': total, 'distinct_nontrivial': distinct,
                    'rule': 'the candidate sets of C05-C07 (x2 configurations), the compression corpus of C01/C02 (compress + decompress) under ASan+UBSan '
                            'whole-program builds (plus heap canaries of the harness allocator); the function-level enumerations of C01 (codec chain and divbwt)/C04/C09/C14/C20 '
                            'under ASan+UBSan and under MSan; oracle: no sanitizer report, no crash'})
    chk.sample({'decompress_candidates': len(r['cands']), 'first': r['cands'][0][0], 'last': r['cands'][-1][0]})
    chk.assumptions += ['sanitizers only see what the enumerated inputs execute; inputs outside the scopes are not covered',
                        'whole-program runs are not MSan-built (libc parts would need instrumenting); the codec harnesses run the same codec code']
    return chk.finish()
