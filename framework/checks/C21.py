"""C21 I/O failures on filters terminate promptly.

Filter runs (stdin -> stdout) of compression, decompression and -cdf copying
under vsched: at every read()/write() call position of the run one error
(EIO on read; EIO, ENOSPC, EPIPE (+SIGPIPE), EFBIG (+SIGXFSZ) on write) is
injected, combined with scheduling deviations (shared budget), with the
default and with an inherited SIG_IGN disposition of SIGPIPE/SIGXFSZ.  The
failing thread leaves with pthread_exit() while possibly holding the scheduler
mutex and the stderr lock; main must still reach its bail-out in every
interleaving.  'No enabled thread' = hang."""
import bz2, signal
from lib import common, sched, lbzx, inputs

LEVEL = 'fault_enumeration'

def _nthr(c):
    """threads of a cell: main, reader, writer and W workers; the copy pipeline has no workers"""
    if any(a in ('-cdf',) for a in c.args) and c.leg.startswith('copy'):
        return 3
    for a in c.args:
        if a.startswith('-n') and a[2:].isdigit():
            return int(a[2:]) + 3
    return 99

def run(tier):
    chk = common.Check('C21', LEVEL, tier, quick_deadline=170, thorough_deadline=1700)
    quick = tier == 'quick'
    ex = sched.Explorer(chk, par=4, jobs=4)
    comp_in = inputs.shape('ZEs')
    dec_in = bz2.compress(inputs.kind('N', 250000), 1)
    copy_in = b'plain' + inputs.lcg(200000, 8)
    pipelines = [('compress', ['-1'], comp_in, None), ('compress-seq', ['-1', '-u'], comp_in, None),
                 ('decompress', ['-d'], dec_in, inputs.kind('N', 250000)), ('copy', ['-cdf'], copy_in, copy_in)]
    for pname, args, data, expect in pipelines:
        exp = expect
        if exp is None:
            p = ex.file_for(data)
            r = lbzx.run('fast', ['-n2'] + args, stdin_path=p, save_stdout=p + '.exp' + pname)
            exp = open(p + '.exp' + pname, 'rb').read()
        for W in ((1, 3) if quick else (1, 2, 3)):
            if pname == 'copy' and W != 1:
                continue
            for kind, opts in (('read-EIO', {'renv': 'eio'}), ('write-EIO', {'wenv': 'eio'}), ('write-ENOSPC', {'wenv': 'enospc'}),
                               ('write-EPIPE', {'wenv': 'epipe'}), ('write-EFBIG', {'wenv': 'efbig'}),
                               ('write-EPIPE-ignored', {'wenv': 'epipe', 'ign_sigpipe': True}),
                               ('write-EFBIG-ignored', {'wenv': 'efbig', 'ign_sigpipe': True})):
                quiet = 'EPIPE' in kind or 'EFBIG' in kind
                sig = signal.SIGPIPE if 'EPIPE' in kind else signal.SIGXFSZ if 'EFBIG' in kind else None
                ignored = 'ignored' in kind
                def orc(c, exp=exp, quiet=quiet, sig=sig, ignored=ignored, kind=kind):
                    if c['sanitizer']:
                        return 'sanitizer report'
                    injected = bool(c['inv'] & 64)
                    if c['inv'] & ~(64 | (4 if True else 0)) & ~4:
                        return 'invariant broken: ' + sched.inv_text(c['inv'] & ~(64 | 4), c.get('note', ''))
                    if not injected:
                        if c['kind'] == 'exit' and c['code'] == 0 and c['stdout_len'] == len(exp) and c['stdout_hash'] == common.fnv64(exp) and not c['stderr_len']:
                            return None
                        return 'no fault injected, yet the run ends with %s(%s)' % (c['kind'], c['code'])
                    if c['kind'] in ('deadlock', 'horizon', 'timeout'):
                        return 'hang after %s: %s %s' % (kind, c['kind'], c.get('note', ''))
                    if c['kind'] == 'signal':
                        if sig is not None and not ignored and c['code'] == int(sig):
                            return None
                        return 'killed by signal %d after %s' % (c['code'], kind)
                    if c['kind'] != 'exit':
                        return 'ends with %s(%s) after %s' % (c['kind'], c['code'], kind)
                    if c['code'] == 0:
                        return 'exit status 0 after a failed %s' % kind
                    if c['code'] != 1:
                        return 'exit status %d after %s' % (c['code'], kind)
                    if sig is not None and not ignored:
                        return 'exit status 1 instead of death by signal %d (default disposition) after %s' % (int(sig), kind)
                    if not quiet and c['stderr_len'] == 0:
                        return 'no diagnostic after %s' % kind
                    if quiet and c['stderr_len'] != 0 and 'ignored' not in kind:
                        return 'diagnostic printed for %s: %s' % (kind, c['stderr_head'][:80])
                    return None
                ex.add(pname, 'fast', ['-n%d' % W] + args, data, orc, '%s W=%d %s' % (pname, W, kind), opts)
                # the same with a signal mask inherited from a parent that had everything blocked
                # (the mask survives exec; lbzip2 must not depend on it)
                if W == (3 if pname != 'copy' else 1) and kind in ('read-EIO', 'write-ENOSPC', 'write-EPIPE', 'write-EFBIG-ignored'):
                    ex.add(pname, 'fast', ['-n%d' % W] + args, data, orc, '%s W=%d %s inherited-mask' % (pname, W, kind),
                           dict(opts, inherit_mask='usr1,usr2,int,term,pipe,xfsz'))
    ex.run_priorities(_nthr, cells=[c for c in ex.cells if _nthr(c) <= (4 if quick else 6) and 'inherited' not in c.desc])
    done = 0
    for d in range(1, (2 if quick else 3) + 1):
        if d == 2 and quick:
            sel = [c for c in ex.cells if ' W=3 ' in c.desc or c.leg == 'copy']
            if ex.run_pass(d, cells=sel):
                chk.cov['bound_2_cells'] = len(sel)
            break
        if not ex.run_pass(d):
            break
        done = d
    chk.cov['deviation_bound_completed_all_cells'] = done
    tot = ex.finish_cov('every execution with <= d deviations; a deviation is one injected read()/write() failure at one call position or one scheduling '
                        'choice; oracle: after an injected failure never status 0, never a hang; status 1 with a diagnostic, or death by SIGPIPE/SIGXFSZ '
                        'when that disposition is the default; no diagnostic for EPIPE/EFBIG.')
    chk.assumptions += ['signal semantics (thread-directed SIGPIPE/SIGXFSZ on EPIPE/EFBIG, blocked in sub-threads, promoted by bailout()) follow the model in vsched.c',
                        'a message for EPIPE/EFBIG is tolerated only when the signal is ignored (the statement says "unless")']
    return chk.finish()
