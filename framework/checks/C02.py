"""C02 Compressed output is a strictly well-formed bzip2 stream.

Every stream produced by the compression corpus (lib/compcorpus.py) is decoded
by libbz2 and walked bit by bit by the independent inspector."""
from lib import common, compcorpus, bzref

LEVEL = 'exploration'

def check_stream(m, ins, lib_ok):
    """list of problems of one output stream"""
    bad = []
    if not lib_ok:
        bad.append('libbz2 does not decode the output to the input')
    if not ins.get('valid'):
        bad.append('inspector: not a valid stream: %s' % ins.get('reason'))
        return bad
    if len(ins['streams']) != 1:
        bad.append('%d streams in one output' % len(ins['streams']))
    if ins['flags'] & ~0:
        if ins['flags'] & bzref.F_TRAILING: bad.append('trailing bytes after the stream')
        if ins['flags'] & bzref.F_RAND: bad.append('randomised block')
        if ins['flags'] & bzref.F_UNUSED_BAD: bad.append('a table that no group uses is not a complete code')
        if ins['flags'] & bzref.F_INCOMPLETE_USED: bad.append('a group is coded by an incomplete table')
        if ins['flags'] & bzref.F_SURPLUS_SEL: bad.append('more than 18002 selectors')
        if ins['flags'] & bzref.F_MISSING_RUNLEN: bad.append('block ends in four equal bytes without count')
    for s in ins['streams']:
        if s['level'] != m['level']:
            bad.append('header digit %d for level %d' % (s['level'], m['level']))
        if s['stored_crc'] != s['computed_crc']:
            bad.append('stream CRC')
        for bi, b in enumerate(s['blocks']):
            if b['rle_len'] > m['level'] * 100000:
                bad.append('block %d holds %d run-length-encoded bytes' % (bi, b['rle_len']))
            if b['stored_crc'] != b['computed_crc']: bad.append('block %d CRC' % bi)
            if b['randomised']: bad.append('block %d randomised' % bi)
            if not (b['primary_index'] < b['rle_len']): bad.append('block %d primary index' % bi)
            if not (2 <= b['tables'] <= 6): bad.append('block %d has %d tables' % (bi, b['tables']))
            if b['selectors'] > 18002: bad.append('block %d has %d selectors' % (bi, b['selectors']))
            if b['selectors'] < b['selectors_used']: bad.append('block %d selectors < groups' % bi)
            if b['selectors'] > b['selectors_used'] + 1: bad.append('block %d has %d surplus selectors' % (bi, b['selectors'] - b['selectors_used']))
            for ti, t in enumerate(b['table']):
                if t['kraft'] != 0:
                    bad.append('block %d table %d (%s) is %s' % (bi, ti, 'used' if t['used'] else 'unused',
                                                                 'incomplete' if t['kraft'] < 0 else 'oversubscribed'))
                if min(t['len']) < 1 or max(t['len']) > 20:
                    bad.append('block %d table %d code length out of 1..20' % (bi, ti))
            if b['end_bit'] % 8 != 0 and False:
                pass
    if m['in_len'] == 0 and sum(len(s['blocks']) for s in ins['streams']) != 0:
        bad.append('blocks in the compression of the empty input')
    return bad

def run(tier):
    chk = common.Check('C02', LEVEL, tier, quick_deadline=170, thorough_deadline=1500)
    c = compcorpus.run_all(tier)
    nblocks = ntables = nunused = onetable = 0
    distinct = set()
    pads = set()
    alphas = set()
    for i, m in enumerate(c['meta']):
        x = c['res'][i]
        ins = c['insp'][i]
        if not (x['kind'] == 'exit' and x['code'] == 0):
            chk.violation('C02|run|' + m['name'], 'compression of %s (%s) ends with %s(%s) %s' % (m['name'], m, x['kind'], x['code'], x['stderr_head']),
                          {'input': m})
            continue
        distinct.add(c['out_sha'][i])
        bad = check_stream(m, ins, c['libbz2_roundtrip'][i])
        if ins.get('valid'):
            for s in ins['streams']:
                for b in s['blocks']:
                    nblocks += 1
                    ntables += b['tables']
                    nunused += sum(1 for t in b['table'] if not t['used'])
                    if sum(1 for t in b['table'] if t['used']) == 1:
                        onetable += 1
                        alphas.add(b['symbols_in_use'] + 2)
                    pads.add((b['end_bit'] - b['bit_offset']) % 8)
        for why in bad:
            chk.violation('C02|%s|%s' % (why.split(' (')[0][:50], m['name'].split(':')[0]),
                          'output of lbzip2 -%d %s on input %s (%d bytes): %s' % (m['level'], m['mode'], m['name'], m['in_len'], why),
                          {'engine': 'lbzx-batch', 'argv': ['lbzip2', '-n%d' % m['W'], '-%d' % m['level'], m['mode']], 'input': m,
                           'cmdline': 'see lib/compcorpus.py input_family(%r) entry %s' % (tier, m['name'])})
    chk.cov.update({
        'evaluations': len(c['meta']), 'distinct_nontrivial': len(distinct),
        'rule': 'inputs of lib/compcorpus.input_family (kinds corpus, all levels, both modes, runs meeting the block end, alphabet and '
                'length sweeps, small-scope strings, structured large inputs) x W in {1,3}; distinct = distinct output streams',
        'blocks_inspected': nblocks, 'tables_inspected': ntables, 'unused_tables_inspected': nunused,
        'single_used_table_blocks': onetable, 'alphabet_sizes_with_dummy_table': len(alphas),
        'results_reused_from_cache_of_same_tree': bool(c.get('cached')),
    })
    for i in (0, len(c['meta']) // 2, len(c['meta']) - 1):
        ins = c['insp'][i]
        chk.sample({'input': c['meta'][i], 'output_bytes': c['out_len'][i],
                    'blocks': [(b['rle_len'], b['tables'], b['selectors']) for s in ins.get('streams', []) for b in s['blocks']][:5]})
    chk.assumptions += ['the inspector (bzref) is the trusted base, cross-checked by libbz2 decoding of the same bytes']
    return chk.finish()
