"""C10 Speculative block discovery never influences the output.

Streams with the 48-bit block-header pattern planted inside valid compressed
data (in the selector list of a block with three identical tables, at every
bit phase), straddling input-block boundaries, and in trailing data (fake
blocks, whole streams, broken streams after a garbage byte); each decoded
under all schedules with <= d deviations for W in {2,3} and several
input-block sizes, plus canonical runs for a wider product.  Oracle: exactly
the sequential reference decoding (status and bytes).  The scheduler events of
hook H2 count how often a candidate was created, adopted, discarded, aborted
and rejected, so that a vacuous run is visible."""
import bz2
from lib import common, bzgen, bzref, lbzx, sched, inputs
from lib.bzgen import Block

LEVEL = 'model_checking'

def streams(tier):
    quick = tier == 'quick'
    out = []
    pl = b'planted header test: the selector list of this block is free'
    a = len(set(pl)) + 2
    tabs = [bzgen.flat_code(a)] * 3
    crcs = ['01' * 16, '0' * 32, '0110' * 8, '00100100100100100100100100100100']
    # (i) planted magic at every bit phase; one- and two-block streams
    for k in (range(0, 32) if not quick else range(0, 32, 3)):
        codes = bzgen.planted_selectors(k, crcs[k % 4], 120)
        out.append(('i:phase%d+2nd' % k, bzgen.build([([Block(pl, tables=tabs, sel_codes=codes), Block(b'second block')], 1)])[0]))
        if k % 4 == 0:
            out.append(('i:phase%d single' % k, bzgen.build([([Block(pl, tables=tabs, sel_codes=codes)], 1)])[0]))
    # two planted copies in one block, and a planted copy in each of two blocks
    c2 = bzgen.planted_selectors(3, crcs[0], 0) + bzgen.planted_selectors(11, crcs[2], 60)
    out.append(('i:two copies', bzgen.build([([Block(pl, tables=tabs, sel_codes=c2), Block(b'tail')], 1)])[0]))
    out.append(('i:both blocks', bzgen.build([([Block(pl, tables=tabs, sel_codes=bzgen.planted_selectors(5, crcs[1], 90)),
                                               Block(pl[::-1], tables=tabs, sel_codes=bzgen.planted_selectors(9, crcs[3], 90)), Block(b'3')], 1)])[0]))
    good = bzgen.build([([Block(b'good stream')], 1)])[0]
    good2 = bzgen.build([([Block(b'first'), Block(b'second'), Block(b'third')], 1)])[0]
    # a complete decodable block as raw bits (magic .. data), byte aligned by the EOS of a one-block stream
    fake_stream = bzgen.build([([Block(b'fake block contents')], 9)])[0]
    fake_block = fake_stream[4:]                 # starts with the block magic, ends with EOS + CRC
    ins = bzref.inspect(good2)
    b1 = ins['streams'][0]['blocks'][1]
    badcrc = bzgen.flip(good2, b1['crc_bit'] + 4)
    # (iii) trailing data with bait
    for nm, tr in (('fake block', b'\x00' + fake_block), ('fake block x3', b'\xff' + fake_block * 3), ('valid stream', b'\x00' + good2),
                   ('bad-crc stream', b'\x00' + badcrc), ('truncated block', b'\x00' + good2[:-9]),
                   ('magic only', b'\x00' + bytes.fromhex('314159265359')), ('magic+crc', b'\x00' + bytes.fromhex('314159265359') + b'\x12\x34\x56\x78\x00'),
                   ('shifted fake', b'\x01' + bytes((int.from_bytes(fake_block, 'big') << 3).to_bytes(len(fake_block) + 1, 'big')))):
        out.append(('iii:' + nm, good + tr))
        if not quick or nm in ('fake block', 'valid stream'):
            out.append(('iii:3blk+' + nm, good2 + tr))
    # (iv) invalid streams followed by bait
    out.append(('iv:badcrc blk1', badcrc))
    out.append(('iv:badcrc+bait', badcrc + b'\x00' + fake_block * 2))
    out.append(('iv:truncated+bait', good2[: len(good2) // 2] + fake_block))
    out.append(('iv:broken magic+valid', bzgen.flip(good2, ins['streams'][0]['blocks'][2]['bit_offset'] + 3) + good))
    bad_planted = bzgen.flip(bzgen.build([([Block(pl, tables=tabs, sel_codes=bzgen.planted_selectors(6, crcs[0], 100)), Block(b"zz")], 1)])[0], 70 * 8 + 3)
    out.append(('iv:planted then corrupt', bad_planted))
    # (vi) complete decodable blocks planted verbatim inside valid compressed data (carrier block whose
    # prefix code spells arbitrary bit strings, bzgen.carrier), at every bit shift relative to the byte grid
    fakebits = bzgen.block_bitstring(Block(b'fake block contents'))
    fake300 = bzgen.block_bitstring(Block(bytes(((i * 5) % 23) * 3 + 40 for i in range(300))))   # spaced byte values: no long runs of 1 bits in the symbol map
    bomb = bzgen.block_bitstring(Block(L=bytes(1500), origptr=0, plain_for_crc=b''))
    for sh in (range(0, 9) if not quick else (0, 3, 5)):
        out.append(('vi:carrier fake shift%d' % sh, bzgen.build([([bzgen.carrier([fakebits], 3, sh), Block(b'after the carrier')], 1)])[0]))
    out.append(('vi:carrier 3 fakes', bzgen.build([([bzgen.carrier([fakebits, fake300, fakebits], 2, 1), Block(b'tail block')], 1)])[0]))
    out.append(('vi:carrier fake300', bzgen.build([([Block(b'head block'), bzgen.carrier([fake300], 5, 2), Block(b'tail block')], 1)])[0]))
    out.append(('vi:carrier bomb', bzgen.build([([bzgen.carrier([bomb], 4, 4), Block(b'tail block')], 1)])[0]))
    out.append(('vi:2 carriers', bzgen.build([([bzgen.carrier([fakebits], 3, 2), bzgen.carrier([fake300], 3, 7, salt=1), Block(b'z')], 1)])[0]))
    # (v) many headers: concatenated small streams (genuine headers everywhere)
    out.append(('v:8 streams', b''.join(bzgen.build([([Block(b'stream %d' % i)], 1 + i % 9)])[0] for i in range(8))))
    out.append(('v:py 3blk', bz2.compress(inputs.kind('N', 250000), 1)))
    return out

def _nthr(c):
    """threads of a cell: main, reader, writer and W workers; the copy pipeline has no workers"""
    if any(a in ('-cdf',) for a in c.args) and c.leg.startswith('copy'):
        return 3
    for a in c.args:
        if a.startswith('-n') and a[2:].isdigit():
            return int(a[2:]) + 3
    return 99

def run(tier):
    chk = common.Check('C10', LEVEL, tier, quick_deadline=170, thorough_deadline=1600)
    quick = tier == 'quick'
    ss = streams(tier)
    refs = bzref.batch([d for _, d in ss])
    planted = sum(d.count(bytes.fromhex('314159265359')) for _, d in ss)
    # canonical schedules over a wide product
    cases, meta = [], []
    for (name, data), ref in zip(ss, refs):
        for W in (1, 2, 3):
            for ig in (8, 12, 16, 20, 32, 64, 0) if not quick else (8, 16, 32, 64, 0):
                for pol in (0, 1, 2):
                    env = {'LBZIP2_VERIF_IN_GRANUL': str(ig)} if ig else {}
                    cases.append({'argv': ['lbzip2', '-d', '-n%d' % W], 'env': env, 'stdin': data, 'policy': pol})
                    meta.append((name, ref, W, ig, pol))
    res = lbzx.batch('fast', cases, timeout=120)
    ev = {}
    def judge(x, ref):
        if x['sanitizer']: return 'sanitizer report'
        if x['kind'] != 'exit': return 'ended by %s(%s)' % (x['kind'], x['code'])
        if x['inv']: return 'invariant broken: ' + sched.inv_text(x['inv'])
        if ref['ok'] and not (ref['flags'] & 3):
            if x['code'] != 0: return 'exit status %d, sequential decoding succeeds (%s)' % (x['code'], x['stderr_head'][:60])
            if x['stdout_len'] != ref['out_len'] or x['stdout_hash'] != ref['out_hash']:
                return 'output differs from the sequential decoding'
            if x['stderr_len']: return 'diagnostic for a valid input'
        elif x['code'] != 1:
            return 'exit status %d, sequential decoding fails (%s)' % (x['code'], ref['reason'])
        return None
    for x, (name, ref, W, ig, pol) in zip(res, meta):
        for k, v in x['events'].items():
            if k.startswith('x-'):
                ev[k] = ev.get(k, 0) + v
        why = judge(x, ref)
        if why:
            chk.violation('C10|canon|%s|%s' % (name.split(':')[0], why[:40]),
                          'stream %s, -d -n%d in_granul=%s policy P%d: %s' % (name, W, ig or 'stock', pol, why),
                          {'engine': 'lbzx-batch', 'argv': ['lbzip2', '-d', '-n%d' % W], 'env': {'LBZIP2_VERIF_IN_GRANUL': str(ig)},
                           'policy': pol, 'stdin_hex': dict(ss)[name].hex()[:8000]})
    chk.leg('canonical', cases=len(cases), streams=len(ss))
    # schedules
    ex = sched.Explorer(chk, par=4, jobs=4)
    sel = [n for n, _ in ss if n in ('i:phase0+2nd', 'i:phase9+2nd', 'i:phase21+2nd', 'i:two copies', 'i:both blocks', 'iii:fake block',
                                     'iii:3blk+fake block', 'iii:valid stream', 'iii:bad-crc stream', 'iii:shifted fake', 'iv:badcrc+bait',
                                     'iv:truncated+bait', 'iv:planted then corrupt', 'v:8 streams',
                                     'vi:carrier fake shift0', 'vi:carrier fake shift5', 'vi:carrier 3 fakes', 'vi:carrier fake300', 'vi:carrier bomb', 'vi:2 carriers')]
    if quick:
        sel = sel[::2] + ['iv:badcrc+bait', 'vi:carrier 3 fakes']
    refm = {n: r for (n, _), r in zip(ss, refs)}
    datam = dict(ss)
    for name in dict.fromkeys(sel):
        ref, data = refm[name], datam[name]
        if ref['ok']:
            orc = sched.expect_exact(0, bzref.decode(data)['out'])
        else:
            def orc(c):
                if c['sanitizer']: return 'sanitizer report'
                if c['kind'] != 'exit' or c['code'] != 1: return 'ended by %s(%s), sequential decoding fails' % (c['kind'], c['code'])
                if c['inv']: return 'invariant broken: ' + sched.inv_text(c['inv'], c.get('note', ''))
                return None
        for W in (2, 3):
            for ig in ((32, 64) if quick else (16, 32, 64)):
                env = {'LBZIP2_VERIF_IN_GRANUL': str(ig)}
                if name.startswith('vi:') and ig != 32:
                    env['LBZIP2_VERIF_OUT_GRANUL'] = '40'       # bogus blocks that fill several output buffers
                ex.add('schedules', 'fast', ['-d', '-n%d' % W], data, orc, '%s W=%d in_granul=%d%s' % (name, W, ig, ' out_granul=40' if len(env) > 1 else ''),
                       {'setenv': env})
    ex.run_priorities(_nthr, cells=[c for c in ex.cells if _nthr(c) <= (5 if quick else 6)])
    done = 0
    for d in range(1, (2 if quick else 3) + 1):
        if not ex.run_pass(d):
            break
        done = d
    chk.cov['schedule_bound_completed'] = done
    for c in ex.cells:
        if c.best:
            for k, v in c.best.get('events', {}).items():
                if k.startswith('x-'):
                    ev[k] = ev.get(k, 0) + v
    tot = ex.finish_cov('every execution with <= d deviations from P0/P1/P2; oracle: status and bytes of the sequential reference decoding.')
    chk.cov['evaluations'] += len(cases)
    chk.cov['distinct_nontrivial'] += len(set((m[0], m[2], m[3], m[4]) for m in meta))
    chk.cov['speculation_events'] = ev
    chk.cov['planted_or_genuine_header_patterns_in_inputs'] = planted
    missing = [k for k in ('x-scan-candidate', 'x-parse-adopt', 'x-parse-discard', 'x-reorder-reject', 'x-retr-abort') if not ev.get(k)]
    if missing:
        chk.cap('speculation paths never taken in this run: ' + ','.join(missing))
    chk.assumptions += ['expected results come from the independent sequential reference decoder',
                        'complete decodable spurious blocks are only constructible in trailing data / after a broken stream (DESIGN.md C10)']
    return chk.finish()
