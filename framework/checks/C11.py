"""C11 Schedulers are deadlock-free, bounded and order-preserving.

Direct leg (deciding): every execution of the real process.c/compress.c/
expand.c with <= d deviations from three canonical schedulers, for the four
pipelines, W <= 3 and a family of input shapes; on every choice point the slot
counters are checked, at the end the exact output (which encodes block order),
status 0, empty stderr; deadlock = no enabled thread, livelock = horizon."""
import bz2
from lib import common, sched, inputs, lbzx

LEVEL = 'model_checking'

def shapes_compress(tier):
    q = ['', 'Zs', 'Z', 'E', 'ZZs', 'EZ', 'ZE']
    t = q + ['C', 'ZZ', 'EE', 'ZZZ', 'ZEZs', 'EZE', 'CZC', 'ZZZZ']
    return q if tier == 'quick' else t

def streams_decompress(tier):
    """(name, bytes, plaintext)"""
    out = []
    def mk(name, plain, level=1, tail=b''):
        parts = plain if isinstance(plain, list) else [plain]
        data = b''.join(bz2.compress(p, level) for p in parts) + tail
        out.append((name, data, b''.join(parts)))
    n3 = inputs.kind('N', 250000)            # 3 blocks at level 1, tiny compressed
    mk('1blk', inputs.kind('N', 60000))
    mk('3blk', n3)
    mk('empty', b'')
    mk('2streams', [inputs.kind('N', 120000, 1), inputs.kind('Z', 5000)])
    mk('3blk+garbage', n3, tail=b'\x00garbage')
    # one block followed by more tiny blocks than the queue of scanner-found,
    # not yet confirmed blocks can hold (17W-3): the bound is only reached when
    # the worker holding the in-order block is starved while the others run ahead
    mk('1blk+36tiny', [inputs.kind('N', 60000)] + [b'tiny %d' % i for i in range(36)])
    if tier != 'quick':
        mk('1blk+53tiny', [inputs.kind('N', 60000)] + [b'tiny %d' % i for i in range(53)])
    if tier != 'quick':
        mk('4blk-runs', inputs.kind('E', 300000))
        mk('3streams', [inputs.kind('N', 120000, 2), b'', inputs.kind('F', 150000)])
        mk('rand2blk', inputs.lcg(150000))
    return out

def spec_shapes():
    """Streams that stress the speculative side of the decompressor: (1) a carrier block with three complete
    planted blocks, a small block, a block whose output takes more output buffers than there are free slots, a
    tail; (2) two carrier blocks with 20 and 60 spurious headers that fail at once, a tail."""
    from lib import bzgen
    from lib.bzgen import Block
    fake300 = bzgen.block_bitstring(Block(bytes(((i * 5) % 23) * 3 + 40 for i in range(300))))
    fake = bzgen.block_bitstring(Block(b'fake block contents'))
    junk = format(bzgen.BLOCK_MAGIC, '048b') + '0' * 32 + '0' * 48       # magic, "CRC", then an empty symbol map: fails at once
    carrier3 = bzgen.carrier([fake, fake300, fake], 3, 1)
    smallb = Block(bytes((i * 7) % 11 + 65 for i in range(60)))
    multib = Block(bytes((i * 13) % 29 + 48 for i in range(2400)))      # 60 output buffers of 40 bytes: more than the 16W-2 free slots
    s_stale = bzgen.build([([carrier3, smallb, multib, Block(b'tail')], 9)])[0]
    s_junk = bzgen.build([([bzgen.carrier([junk] * 20, 2, 1, salt=1), bzgen.carrier([junk] * 60, 2, 2, salt=2), Block(b'tail')], 9)])[0]
    return s_stale, s_junk

def run(tier):
    chk = common.Check('C11', LEVEL, tier, quick_deadline=170, thorough_deadline=1700)
    ex = sched.Explorer(chk)
    quick = tier == 'quick'
    Ws = [1, 2] if quick else [1, 2, 3]
    maxd = 2 if quick else 3
    cells = []   # (leg, args, data, expected, desc, opts)

    # more input chunks than a single worker has input slots (2W), none of which fills its block exactly: in
    # --sequential mode the partly filled block is parked between chunks while the reader waits for a slot
    for sp in (['EEEE', 'ZEZs'] if quick else ['EEEE', 'ZEZs', 'EEEEE', 'CECE']):
        for mode in ([], ['-u']):
            cells.append(('compress' + ('-seq' if mode else ''), ['-n1', '-1'] + mode, inputs.shape(sp), 'roundtrip', 'shape=%r W=1 (more chunks than input slots)' % sp, {}))
    for sp in shapes_compress(tier):
        data = inputs.shape(sp)
        for mode in ([], ['-u']):
            for W in Ws:
                if quick and W == 1 and mode:
                    continue
                args = ['-n%d' % W, '-1'] + mode
                cells.append(('compress' + ('-seq' if mode else ''), args, data, 'roundtrip',
                              'shape=%r W=%d' % (sp, W), {}))
    for name, data, plain in streams_decompress(tier):
        for W in Ws:
            grans = [({}, 'stock')]
            grans.append(({'LBZIP2_VERIF_IN_GRANUL': '32', 'LBZIP2_VERIF_OUT_GRANUL': '40000'}, 'in32/out40000'))
            if not quick:
                grans.append(({'LBZIP2_VERIF_IN_GRANUL': '8', 'LBZIP2_VERIF_OUT_GRANUL': '100000'}, 'in8/out100000'))
            for env, gname in grans:
                if quick and W == 1 and gname != 'stock':
                    continue
                if 'tiny' in name and (gname != 'stock' or W == 1 or (W == 3) != ('53' in name)):
                    continue
                if gname != 'stock' and len(data) > 3000:
                    continue        # thousands of input blocks: longer than the horizon of the harness, not a livelock
                cells.append(('decompress', ['-n%d' % W, '-d'], data, plain,
                              'stream=%s W=%d gran=%s' % (name, W, gname), {'setenv': env}))
    # trailing data that reaches into later input blocks: the reader may deliver them after the parser has finished
    from lib import bzgen as _bg
    for gl in ((45,) if quick else (5, 45, 200)):
        tg = _bg.build([([_bg.Block(b'aaaaaaaaaaaaaaaaaaaabbbbbbbbbbbbbbbbbbbbbbbbbbbbb')], 1), ([_bg.Block(b'nine'), _bg.Block(b'zz')], 9)],
                       trailing=(b'\x00trailing garbage ' * 12)[:gl])[0]
        tplain = b'aaaaaaaaaaaaaaaaaaaabbbbbbbbbbbbbbbbbbbbbbbbbbbbb' + b'nine' + b'zz'
        for W in Ws:
            for env, gname in (({'LBZIP2_VERIF_IN_GRANUL': '8', 'LBZIP2_VERIF_OUT_GRANUL': '7'}, 'in8/out7'),
                               ({'LBZIP2_VERIF_IN_GRANUL': '16'}, 'in16')):
                if quick and (W == 1 or gname == 'in16'):
                    continue
                cells.append(('decompress', ['-n%d' % W, '-d'], tg, tplain, 'stream=2streams+trail%d W=%d gran=%s' % (gl, W, gname), {'setenv': env}))
    for n in ([0, 3, 70000] if quick else [0, 1, 3, 4, 5, 65536, 70000, 140000, 200000]):
        data = b'xy' + inputs.lcg(n - 2, 5) if n >= 2 else b'x' * n
        cells.append(('copy', ['-cdf'], data, data, 'copy n=%d' % n, {}))

    # expected output of the compression cells: any byte string is accepted as
    # long as it is ONE string for all executions and libbz2 decodes it to the
    # input; the canonical P0 run provides it.
    expected = {}
    for leg, args, data, exp, desc, opts in cells:
        if exp == 'roundtrip':
            p = ex.file_for(data)
            out = p + '.' + '_'.join(args) + '.out'
            r = lbzx.run('fast', args, stdin_path=p, save_stdout=out, **opts)
            got = open(out, 'rb').read()
            try:
                back = inputs.bunzip(got) if r['kind'] == 'exit' and r['code'] == 0 else None
            except Exception as e:
                back = None
            if back != data:
                chk.violation('%s|%s|canonical' % (leg, desc),
                              '%s: canonical run does not produce a stream that libbz2 decodes to the input [%s] %s(%s)'
                              % (leg, desc, r['kind'], r['code']),
                              {'engine': 'lbzx', 'args': args, 'stdin_desc': desc, 'cmdline': ' '.join(r['cmd'])})
                expected[(leg, desc)] = None
            else:
                expected[(leg, desc)] = got
        else:
            expected[(leg, desc)] = exp

    for leg, args, data, exp, desc, opts in cells:
        e = expected[(leg, desc)]
        if e is not None:
            ex.add(leg, 'fast', args, data, sched.expect_exact(0, e, allow_inv=4 if leg == 'copy' else 0), desc, opts)
    # every strict-priority scheduler (all orders of the cell's threads): the
    # schedules that starve one thread for as long as possible
    def nthreads(c):
        if c.leg == 'copy':
            return 3
        return int(c.args[0][2:]) + 3          # main, reader, writer, W workers
    ex.run_priorities(nthreads, cells=[c for c in ex.cells if nthreads(c) <= (5 if quick else 6)])
    # ... and with one priority-change point anywhere in the run (copy pipeline: two), for the small cells
    pc_cells = [c for c in ex.cells if 'tiny' not in c.desc and
                (nthreads(c) <= 5 or (not quick and nthreads(c) == 6 and c.leg.startswith('compress') and len(c.data) <= 200000))]
    if quick:
        pick = ("shape='ZE' W=2", "shape='EZ' W=2", 'stream=3blk W=2 gran=in32/out40000', 'stream=2streams W=2 gran=stock', 'copy n=70000')
        pc_cells = [c for c in pc_cells if any(c.desc.startswith(x) or c.desc == x for x in pick)]
    ex.run_priorities(nthreads, cells=[c for c in pc_cells if c.leg != 'copy'], label='1 priority change', demote=1)
    ex.run_priorities(nthreads, cells=[c for c in pc_cells if c.leg == 'copy'], label='2 priority changes', demote=2)
    if not quick:
        # compression with up to two workers: all priority orders x two priority-change points (measured once by
        # hand for six shapes x both modes x W=1..3: 3.5 million executions, one outcome each)
        pc2 = sched.Explorer(chk, scratch=ex.dir)
        for sp in ('EEEE', 'ZEZs', 'EZE'):
            for mode in ([], ['-u']):
                for W in (1, 2):
                    e = expected.get(('compress' + ('-seq' if mode else ''), 'shape=%r W=%d' % (sp, W))) or \
                        expected.get(('compress' + ('-seq' if mode else ''), 'shape=%r W=1 (more chunks than input slots)' % sp))
                    if e is not None:
                        pc2.add('compress+2-priority-changes', 'fast', ['-n%d' % W, '-1'] + mode, inputs.shape(sp), sched.expect_exact(0, e),
                                'shape=%r W=%d %s' % (sp, W, ' '.join(mode)), {'nprio': W + 3, 'demote': 2}, policies='prio:%d' % (W + 3))
        pc2.run_pass(2, time_limit=min(420, chk.left() * 0.3))
        pc2.finish_cov('')
    # priority-change points (PCT-style): strict-priority schedulers in which, at up to k points of the run, the
    # thread that would run next drops to the lowest priority -- a thread is starved from an arbitrary moment on.
    # Shapes: blocks with planted spurious candidates followed by blocks whose output takes most output slots.
    s_stale, s_junk = spec_shapes()
    from lib import bzref
    dm2 = sched.Explorer(chk, scratch=ex.dir)
    dm1 = sched.Explorer(chk, scratch=ex.dir)
    orders = sched.priority_orders(6, (4, 5))            # W=3: threads main, worker 1, sink, source, workers 4 and 5 (interchangeable)
    if quick:
        orders = orders[::10]
    plain_stale = bzref.decode(s_stale)['out']
    plain_junk = bzref.decode(s_junk)['out']
    dm2.add('decompress+2-priority-changes', 'fast', ['-n3', '-d'], s_stale, sched.expect_exact(0, plain_stale),
            'carrier(3 complete planted blocks)+small+60-buffer block+tail W=3 in64/out40',
            {'setenv': {'LBZIP2_VERIF_IN_GRANUL': '64', 'LBZIP2_VERIF_OUT_GRANUL': '40'}, 'nprio': 6, 'demote': 2}, policies=','.join(orders))
    dm1.add('decompress+1-priority-change', 'fast', ['-n3', '-d'], s_junk, sched.expect_exact(0, plain_junk),
            'carrier(20 spurious headers)+carrier(60 spurious headers)+tail W=3 in64',
            {'setenv': {'LBZIP2_VERIF_IN_GRANUL': '64'}, 'nprio': 6, 'demote': 1}, policies='prio:6')
    if not quick:
      dm1.add('decompress+1-priority-change', 'fast', ['-n3', '-d'], s_stale, sched.expect_exact(0, plain_stale),
            'carrier(3 complete planted blocks)+small+60-buffer block+tail W=3 in64/out40',
            {'setenv': {'LBZIP2_VERIF_IN_GRANUL': '64', 'LBZIP2_VERIF_OUT_GRANUL': '40'}, 'nprio': 6, 'demote': 1}, policies='prio:6')
    dm1.run_pass(1)
    dm2.run_pass(2, time_limit=(100 if quick else min(900, chk.left() * 0.45)))
    dm1.finish_cov('')
    dm2.finish_cov('priority-change legs: strict-priority schedulers with 1 (all 720 orders of 6 threads) / 2 (orders up to worker symmetry) '
                   'priority-change points at any scheduling point.')
    # passes of increasing bound: every cell completes d before any starts d+1
    done = 0
    for d in range(1, maxd + 1):
        extra = {'spurious': 1} if (not quick and d >= 3) else None
        sel = [c for c in ex.cells if not ('tiny' in c.desc and d > (1 if quick else 2))]
        if not ex.run_pass(d, cells=sel, extra_opts=extra):
            break
        done = d
    chk.cov['bound_completed_all_cells'] = done
    ex.finish_cov('every execution under each strict-priority scheduler (all K! priority orders of the K threads of a cell) and '
                  'every execution with <= d deviations (delay-bounded) from schedulers P0/P1/P2; '
                  'a state is the tuple (work_units,in_slots,out_slots,eof, per-thread progress) sampled at a '
                  'scheduling point; distinct_nontrivial counts distinct such states per cell, summed.')
    chk.assumptions += ['lbzip2 is data-race free, so scheduling only at synchronisation and I/O calls loses no behaviour (C12 checks this)',
                        'condition variables: no spurious wake-ups except where offered as a deviation (thorough, d=3)',
                        'W <= %d, deviation bound as reported' % Ws[-1]]
    return chk.finish()
