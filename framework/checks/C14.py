"""C14 Block-header scanner matches exactly the header pattern.

(a) explicit-state product of the bit automaton with the definition ('longest
prefix of 0x314159265359 that is a suffix of the input'), every entry of the
byte automaton against eight bit steps; (b) scan() on buffers with the pattern
planted at every bit offset, over many backgrounds (near misses, repeated
prefixes, overlapping copies), every start bit and skip distance."""
from lib import common, codecx

LEVEL = 'model_checking'

def run(tier):
    chk = common.Check('C14', LEVEL, tier, quick_deadline=150, thorough_deadline=1500)
    st = codecx.c14(chk, tier)
    if st is None:
        common.harness_error('C14 harness does not compile against this tree (scantab.h / scan() interface changed)')
    chk.cov.update({
        'evaluations': st.get('scan_calls', 0) + st.get('big_dfa_entries', 0) + st.get('product_transitions', 0),
        'distinct_nontrivial': st.get('scan_found', 0),
        'states': st.get('product_states', 0), 'transitions': st.get('product_transitions', 0),
        'traces_validated_against_impl': st.get('scan_calls', 0),
        'rule': 'product automaton: all reachable (mini_dfa state, reference state) pairs; big_dfa: all 49x256 entries; scan(): 101 backgrounds x pattern '
                'offsets x second copy placement x start bit 0..64 x skip 0..168; oracle: a reported candidate is a real occurrence not before the start, '
                'and no complete occurrence at or after the point the scanner may begin (skip rounded up to a word) is passed over; '
                'distinct_nontrivial = calls that reported a candidate',
    })
    chk.sample({'pattern': '0x314159265359', 'product_states': st.get('product_states'), 'scan_calls': st.get('scan_calls')})
    chk.assumptions += ['an occurrence inside the region the caller asked to skip (rounded up to the next 32-bit word) need not be reported',
                        'occurrences straddling two input blocks are out of scope (property statement)']
    return chk.finish()
