"""C14 Block-header scanner matches exactly the header pattern.

(a) explicit-state product of the bit automaton with the definition ('longest
prefix of 0x314159265359 that is a suffix of the input'), every entry of the
byte automaton against eight bit steps; (b) scan() on buffers with the pattern
planted at every bit offset, over many backgrounds (near misses, repeated
prefixes, overlapping copies), every start bit and skip distance."""
import os
from lib import common, codecx

LEVEL = 'model_checking'

def run(tier):
    chk = common.Check('C14', LEVEL, tier, quick_deadline=150, thorough_deadline=1500)
    st = codecx.c14(chk, tier)
    if st is None:
        common.harness_error('C14 harness does not compile against this tree (scantab.h / scan() interface changed)')
    chk.cov.update({
        'evaluations': st.get('scan_calls', 0) + st.get('big_dfa_entries', 0) + st.get('product_transitions', 0),
        'distinct_nontrivial': st.get('scan_found', 0),
        'states': st.get('product_states', 0), 'transitions': st.get('product_transitions', 0),
        'traces_validated_against_impl': st.get('scan_calls', 0),
        'rule': 'product automaton: all reachable (mini_dfa state, reference state) pairs; big_dfa: all 49x256 entries; scan(): 101 backgrounds x pattern '
                'offsets x second copy placement x start bit 0..64 x skip 0..168; oracle: a reported candidate is a real occurrence not before the start, '
                'and no complete occurrence at or after the point the scanner may begin (skip rounded up to a word) is passed over; '
                'distinct_nontrivial = calls that reported a candidate',
    })
    # (c) whole program: what scan() finds must also come out of do_scan()'s loop over an input block.  Streams whose
    # first block ends in a planted header, directly followed by the genuine header of the second block, and a third
    # block, cut into input blocks of every size (so that the headers fall into the last words of an input block,
    # right behind another occurrence, etc.).  Under the strict-priority schedulers with one priority-change point
    # the scanner gets ahead of the parser; the largest number of blocks the parser adopts from the scanner in one
    # execution must then equal the number of genuine headers that lie wholly inside one input block (measured to
    # be exact on the unchanged tree for all 576 (stream, block size) combinations).
    from lib import bzgen, bzref, lbzx, sched
    from lib.bzgen import Block
    junk = format(bzgen.BLOCK_MAGIC, '048b') + '0' * 32
    cells = []
    for sh in range(0, 9):
        for fill in (0, 1, 2, 3):
            cb = bzgen.carrier([junk], fill, sh)
            cb = Block(raw_syms=cb.raw_syms[:-2], tables=[bzgen.CARRIER_LENS, bzgen.CARRIER_LENS])   # the plant is the last thing before end-of-block
            data = bzgen.build([([cb, Block(b'second'), Block(b'third block')], 1)])[0]
            offs = [b['bit_offset'] for st_ in bzref.inspect(data)['streams'] for b in st_['blocks']]
            for g in range(8, 72, 4):
                # genuine block headers (48-bit pattern + 32 bits) that lie wholly inside one input block; input
                # coordinates start after the 4-byte stream header.  Each of them, the first included, can be found
                # by the scanner before the parser gets there, and is then adopted by the parser.
                exp = sum(1 for o in offs if (o - 32) // (8 * g) == (o - 32 + 79) // (8 * g))
                a = offs[1] - 32
                end = ((a + 79) // (8 * g) + 1) * 8 * g
                left = end - (a - 9)        # bits of the input block behind the planted occurrence (it ends 9 bits before the 2nd header)
                tight = a // (8 * g) == (a + 79) // (8 * g) and left <= 95
                cells.append((data, g, exp, 'shift%d fill%d in_granul=%d (%d bits of the input block follow the planted header)' % (sh, fill, g, left), tight))
    tight = [c for c in cells if c[4]]
    rest = [c for c in cells if not c[4]]
    if tier == 'quick':
        cells = tight[:: max(1, len(tight) // 10)] + rest[:: max(1, len(rest) // 4)]
    else:
        cells = tight + rest[::3]
    cells = [c[:4] for c in cells]
    nexec = 0
    d = common.scratch('c14w')
    for i, (data, g, exp, desc) in enumerate(cells):
        if chk.left() < 20:
            chk.cap('deadline: whole-program scanner cells from %s on not run' % desc)
            break
        pth = os.path.join(d, 'in%d' % i)
        open(pth, 'wb').write(data)
        r = lbzx.explore('fast', ['-d', '-n2'], bound=1, demote=1, nprio=5, jobs=16, stdin_path=pth, policy='prio:5',
                         setenv={'LBZIP2_VERIF_IN_GRANUL': str(g)}, deadline=chk.left() - 5)
        nexec += r['executions']
        bad = [k for k in r['classes'] if not (k['kind'] == 'exit' and k['code'] == 0 and not (k['inv'] & ~64))]
        if bad:
            chk.violation('C14|whole|abnormal|' + desc, 'decompressing the scanner test stream (%s): %s' % (desc, lbzx.cls_str(bad[0])),
                          {'engine': 'lbzx', 'cmdline': ' '.join(r['cmd']), 'stdin_hex': data.hex()})
        elif r['complete'] and r['events_max']['x-parse-adopt'] < exp:
            chk.violation('C14|whole|missed|' + desc.split(' in_granul')[0],
                          'a block header that lies wholly inside one input block is never found by the scanner: %d of the 3 genuine headers '
                          'lie inside one input block, but at most %d blocks were adopted from the scanner in any of %d executions '
                          '(all priority orders x one priority change); %s' % (exp, r['events_max']['x-parse-adopt'], r['executions'], desc),
                          {'engine': 'lbzx', 'cmdline': ' '.join(r['cmd']), 'stdin_hex': data.hex()})
    chk.leg('whole-program-scanner', cells=len(cells), executions=nexec)
    chk.cov['evaluations'] += nexec
    chk.sample({'pattern': '0x314159265359', 'product_states': st.get('product_states'), 'scan_calls': st.get('scan_calls')})
    chk.assumptions += ['an occurrence inside the region the caller asked to skip (rounded up to the next 32-bit word) need not be reported',
                        'occurrences straddling two input blocks are out of scope (property statement)']
    return chk.finish()
