"""Function-level legs (engine E6) shared by several checks; filled in by the
codec harnesses.  A leg that cannot be built against the current tree is
recorded as 'unbound' and never reported as a violation."""
def c20_leg_a(chk, tier):
    try:
        from lib import codecx
    except ImportError:
        chk.leg('function-level', status='not built yet')
        return
    codecx.c20(chk, tier)

def _leg(chk, tier, fn):
    try:
        from lib import codecx
    except ImportError:
        chk.leg('function-level', status='not built yet')
        return
    getattr(codecx, fn)(chk, tier)

def c04_leg_a(chk, tier): _leg(chk, tier, 'c04')
def c01_leg_a(chk, tier):
    _leg(chk, tier, 'c01')
    _leg(chk, tier, 'bwt')
def c09_leg_a(chk, tier): _leg(chk, tier, 'c09')
