"""C16 Interrupted or failed runs never lose data.

History: one FILE operand processed by the whole program (main.c, signals.c,
process.c and the codec, real system calls in a scratch directory).  Every
system-call position of the run is an injection point: the call fails with
each errno meaningful for it, or SIGKILL arrives just before / after it, or
SIGINT / SIGTERM arrives at any scheduling point (which includes a point in
front of every file operation).  All single deviations (quick) and all pairs
(thorough) are enumerated; scheduling deviations share the budget.  After each
execution the directory is examined."""
import bz2, os
from lib import common, sched, lbzx, inputs, fsx, bzgen

LEVEL = 'fault_enumeration'
MT = 946684900_987654321

def histories(tier):
    quick = tier == 'quick'
    hs = []
    def comp(name, data, extra=()):
        hs.append({'name': 'compress %s %s' % (name, ' '.join(extra)), 'in': 'data.txt', 'out': 'data.txt.bz2', 'data': data,
                   'args': ['-n2', '-1'] + list(extra) + ['data.txt'], 'keep': '-k' in extra, 'mode': 0o640})
    def dec(name, data, extra=(), valid=True):
        hs.append({'name': 'decompress %s %s' % (name, ' '.join(extra)), 'in': 'data.bz2', 'out': 'data', 'data': data,
                   'args': ['-n2', '-d'] + list(extra) + ['data.bz2'], 'keep': '-k' in extra, 'mode': 0o604, 'valid': valid})
    one = inputs.kind('T', 30000)
    three = inputs.shape('ZEs')                 # 3 blocks at level 1
    comp('1 block', one)
    comp('3 blocks', three, ['-k'])
    comp('empty', b'')
    dec('3 blocks', bz2.compress(inputs.kind('N', 250000), 1))
    dec('1 block', bz2.compress(one, 9), ['-k'])
    dec('corrupt', bzgen.flip(bz2.compress(inputs.kind('N', 250000), 1), 100 * 8 + 3), valid=False)
    # -v: progress messages on stderr before and after the operand; the log device may fail too
    comp('1 block', one, ['-v'])
    dec('1 block', bz2.compress(one, 9), ['-v'])
    if not quick:
        comp('3 blocks', three)
        comp('1 block', one, ['-k'])
        comp('seq 3 blocks', three, ['-u'])
        dec('empty stream', bz2.compress(b'', 9))
        dec('3 blocks', bz2.compress(inputs.kind('N', 250000), 1), ['-k'])
        dec('truncated', bz2.compress(inputs.kind('N', 250000), 1)[:-7], valid=False)
    return hs

def _nthr(c):
    """threads of a cell: main, reader, writer and W workers; the copy pipeline has no workers"""
    if any(a in ('-cdf',) for a in c.args) and c.leg.startswith('copy'):
        return 3
    for a in c.args:
        if a.startswith('-n') and a[2:].isdigit():
            return int(a[2:]) + 3
    return 99

def run(tier):
    chk = common.Check('C16', LEVEL, tier, quick_deadline=170, thorough_deadline=1700)
    quick = tier == 'quick'
    ex = sched.Explorer(chk, par=4, jobs=4)
    root = common.scratch('c16')
    for hi, h in enumerate(histories(tier)):
        tdir = os.path.join(root, 't%d' % hi)
        wdir = os.path.join(root, 'w%d' % hi)
        os.makedirs(tdir); os.makedirs(wdir)
        fsx.make_file(os.path.join(tdir, h['in']), h['data'], h['mode'], mtime_ns=MT)
        opts = {'fs_template': tdir, 'fs_work': wdir, 'env_all_fds': True}
        # fault-free run: the complete output
        r0 = lbzx.run('fast', h['args'], **opts)
        fs0 = fsx.parse_fs(r0['fs'])
        valid = h.get('valid', True)
        if valid:
            if not (r0['kind'] == 'exit' and r0['code'] == 0 and h['out'] in fs0 and (h['keep'] or h['in'] not in fs0)):
                chk.violation('C16|base|' + h['name'], 'fault-free run of %s: %s(%s) leaves %s' % (h['name'], r0['kind'], r0['code'], r0['fs']),
                              {'engine': 'lbzx', 'cmdline': ' '.join(r0['cmd'])})
                continue
            out_hash, out_size = fs0[h['out']]['hash'], fs0[h['out']]['size']
        else:
            out_hash = out_size = None
        in_hash, in_size = common.fnv64(h['data']), len(h['data'])
        in_mtime = fsx.mtime_str(MT)
        def orc(c, h=h, out_hash=out_hash, out_size=out_size, in_hash=in_hash, in_size=in_size, valid=valid, in_mtime=in_mtime):
            if c['sanitizer']:
                return 'sanitizer report'
            fs = fsx.parse_fs(c['fs'])
            inp, outp = fs.get(h['in']), fs.get(h['out'])
            stray = [n for n in fs if n not in (h['in'], h['out'])]
            in_ok = inp is not None and inp['type'] == 'f' and inp['hash'] == in_hash and inp['size'] == in_size \
                and inp['mode'] == h['mode'] and inp['mtime'] == in_mtime
            out_ok = valid and outp is not None and outp['type'] == 'f' and outp['hash'] == out_hash and outp['size'] == out_size
            S1 = in_ok and outp is None and not stray
            S2 = out_ok and not stray and (inp is None or in_ok)
            k, code = c['kind'], c['code']
            if c['inv'] & 32:
                # the injected fault was a failing unlink(): the file that could not be
                # removed (partial output in cleanup, or the input) stays by necessity
                S1 = S1 or (in_ok and not stray)
                S2 = S2 or (out_ok and not stray)
            if c['inv'] & ~(32 | 64 | 128):
                return 'invariant broken: ' + sched.inv_text(c['inv'] & ~(32 | 64 | 128), c.get('note', ''))
            if k == 'signal' and code == 9:
                if in_ok or out_ok:
                    return None
                return 'after SIGKILL neither the input is intact nor a complete output exists: ' + c['fs']
            if k == 'signal' and code in (2, 15, 13, 25):
                if S1 or S2:
                    return None
                return 'death by signal %d leaves neither (input unchanged, no output) nor (complete output): %s' % (code, c['fs'])
            if k != 'exit':
                return 'run ends with %s(%s) %s' % (k, code, c.get('note', ''))
            if code == 0:
                if not S2:
                    return 'exit status 0 without a complete output: ' + c['fs']
                if inp is not None and not h['keep']:
                    return 'exit status 0 but the input was not removed'
                return None
            if code == 4:
                if S1 or S2:
                    return None
                return 'exit status 4 leaves neither (input unchanged, no output) nor (complete output): ' + c['fs']
            if code == 1:
                if c['stderr_len'] == 0 and not (c['inv'] & 128):
                    return 'exit status 1 without a diagnostic'
                if S1 or S2:
                    return None
                return 'exit status 1 leaves a partial state: ' + c['fs']
            return 'exit status %d' % code
        wenv = 'eio,enospc,efbig,epipe'
        ex.add('crash-points', 'fast', h['args'], None, orc, h['name'],
               dict(opts, fenv='err,kill', sigs='int,term', wenv=wenv, renv='eio', senv='epipe,eio'), policies='P0,P2')
    ex.run_priorities(_nthr, cells=ex.cells)
    done = 0
    for d in range(1, (2 if quick else 3) + 1):
        if not ex.run_pass(d):
            break
        done = d
    chk.cov['deviation_bound_completed'] = done
    tot = ex.finish_cov('every execution with <= d deviations; a deviation is: an errno failure of one system call (open/read/write/close/'
                        'fchown/fchmod/futimens/unlink/lstat, each errno meaningful for it), a failing flush of stderr (EPIPE+SIGPIPE, EIO) at one diagnostic/progress message, SIGKILL just before or after one system call, '
                        'SIGINT/SIGTERM at one scheduling point (every file operation is one), or one scheduling choice; '
                        'oracle on the directory after the run: S1 (input unchanged, nothing else) or S2 (complete output; input gone unless -k).')
    chk.cov['histories'] = len(ex.cells)
    chk.cov['distinct_end_states_summed'] = tot['classes']
    chk.cov['distinct_nontrivial'] = max(chk.cov['distinct_nontrivial'], tot['classes'])
    chk.assumptions += ['faults are injected in-process at the libc call boundary of the real main.c/process.c code; the kernel side is the signal/I-O model of vsched.c',
                        'a failure after the operand is complete (close of the input) may leave S2 with status 1; an unlink failure of the input leaves both files with status 4',
                        'SIGKILL = the process stops at that instant; what write() already handed to the kernel stays in the file']
    return chk.finish()
