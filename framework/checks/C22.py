"""C22 Invocation name and option sources select the documented mode.

All option sequences up to a depth over the mode/destination/no-op tokens, for
every invocation name, with the tokens on the command line or moved into the
LBZIP2/BZIP2/BZIP variables, as a filter and with a FILE operand; three
oracles: (i) environment placement == command-line placement, (ii) inserting
an ignored option changes nothing, (iii) a rule table written from the
statement and the manual page."""
import bz2, itertools
from lib import common, cli, bzref

LEVEL = 'model_checking'

NAMES = ['lbzip2', 'bzip2', 'bunzip2', 'lbunzip2', 'bzcat', 'lbzcat', 'other-name']
MODE_TOKENS = ['-d', '-z', '-c', '-t', '-k', '-f', '-1', '-9', '-dz', '-zd', '-cd', '--decompress', '--compress',
               '--stdout', '--test', '--keep', '--force', '--best', '--fast']
NOOP_TOKENS = ['--small', '-s', '-q', '--quiet', '--repetitive-fast', '--repetitive-best', '--exponential']

TEXT = b'C22 payload: the quick brown fox jumps over the lazy dog\n' * 3
S = bz2.compress(TEXT, 9)          # valid as input of both compression and decompression

def expand(tokens):
    """single-letter view of a token sequence: list of letters in order"""
    out = []
    m = {'--decompress': 'd', '--compress': 'z', '--stdout': 'c', '--test': 't', '--keep': 'k', '--force': 'f', '--best': '9', '--fast': '1'}
    for t in tokens:
        if t in NOOP_TOKENS:
            continue
        if t.startswith('--'):
            out.append(m[t])
        else:
            out += list(t[1:])
    return out

def rule(name, tokens, has_file):
    """-> dict(fatal, mode, dest) or None when the documents do not define it"""
    letters = expand(tokens)
    mode = 'd' if name in ('bunzip2', 'lbunzip2', 'bzcat', 'lbzcat') else 'z'
    dest = 'stdout' if name in ('bzcat', 'lbzcat') else None
    seen_t = False
    for l in letters:
        if l == 't':
            if dest == 'stdout' and (name in ('bzcat', 'lbzcat') or 'c' in letters):
                return {'fatal': True}
            seen_t = True
            mode = 'd'
            dest = 'discard'
        elif l == 'c':
            if dest == 'discard':
                return {'fatal': True}
            dest = 'stdout'
        elif l in 'dz':
            if seen_t:
                return None         # -t followed by -d/-z: not defined by the documents
            mode = l
    if dest is None:
        dest = 'file' if has_file else 'stdout'
    return {'fatal': False, 'mode': mode, 'dest': dest, 'level': next((int(l) for l in reversed(letters) if l in '19'), 9),
            'keep': 'k' in letters}

def classify(r, fs, so, has_file):
    """what the run did, from observables only"""
    if r['kind'] != 'exit':
        return {'what': 'abnormal:%s(%s)' % (r['kind'], r['code'])}
    if r['code'] == 1:
        return {'what': 'fatal'}
    did = {'status': r['code']}
    produced = None
    where = None
    if so:
        produced, where = so, 'stdout'
    if fs is not None:
        extra = [n for n in fs if n != 'in']
        if extra:
            if produced is not None or len(extra) > 1:
                return {'what': 'confused: stdout and files %s' % extra}
            where = 'file:' + extra[0]
            produced = fs[extra[0]].get('data')
        did['input_left'] = 'in' in fs
    if produced is None:
        did['what'] = 'nothing-written'
        return did
    if produced == TEXT:
        did['what'] = 'decompressed'
    else:
        ok, dec = bzref.libbz2(produced)
        if ok and dec == S:
            did['what'] = 'compressed'
            did['level'] = produced[3] - 0x30
        else:
            did['what'] = 'garbage'
    did['where'] = where
    return did

def run(tier):
    chk = common.Check('C22', LEVEL, tier, quick_deadline=170, thorough_deadline=1500)
    quick = tier == 'quick'
    depth = 2 if quick else 3
    toks = MODE_TOKENS if not quick else MODE_TOKENS[:15]
    seqs = [()]
    for n in range(1, depth + 1):
        it = itertools.product(toks, repeat=n)
        if n == 3:
            it = (s for s in it if all(t in ('-d', '-z', '-c', '-t', '-k', '-dz', '--test', '--stdout', '--compress') for t in s))
        seqs += list(it)
    cases, meta = [], []
    def add(name, seq, placement, has_file, kind, base_key):
        args, env = list(seq), {}
        if placement == 'LBZIP2':
            env, args = {'LBZIP2': ' '.join(seq)}, []
        elif placement == 'BZIP2-tabs':
            env, args = {'BZIP2': ' \t '.join(seq) + ' \t'}, []
        elif placement == 'split3' and len(seq) >= 1:
            k = len(seq)
            a, b = seq[:1], seq[1:2]
            env = {'LBZIP2': ' '.join(a), 'BZIP2': ' '.join(b), 'BZIP': ''}
            args = list(seq[2:])
        elif placement == 'BZIP+cmd' and len(seq) >= 1:
            env, args = {'BZIP': seq[0]}, list(seq[1:])
        files = {'in': ('f', S, 0o644)} if has_file else None
        cases.append({'argv0': name, 'args': args + (['in'] if has_file else []), 'env': env, 'stdin': None if has_file else S, 'files': files})
        meta.append({'name': name, 'seq': seq, 'placement': placement, 'file': has_file, 'kind': kind, 'base': base_key})
    for name in NAMES:
        for seq in seqs:
            if quick and name in ('bzip2', 'lbunzip2', 'lbzcat') and len(seq) == 2 and hash(seq) % 3:
                continue
            for has_file in (False, True):
                key = (name, seq, has_file)
                add(name, seq, 'cmdline', has_file, 'base', key)
                if seq:
                    for pl in ('LBZIP2', 'BZIP2-tabs', 'split3', 'BZIP+cmd'):
                        if quick and pl in ('BZIP2-tabs', 'BZIP+cmd') and len(seq) == 2 and name not in ('lbzip2', 'bzcat'):
                            continue
                        add(name, seq, pl, has_file, 'env', key)
                # no-op insertion at every position (one ignored token)
                if len(seq) <= 2 and (not quick or name in ('lbzip2', 'bunzip2', 'bzcat')):
                    for pos in range(len(seq) + 1):
                        for nt in (NOOP_TOKENS if not quick else NOOP_TOKENS[:4]):
                            if quick and (pos + len(nt)) % 2:
                                continue
                            s2 = seq[:pos] + (nt,) + seq[pos:]
                            add(name, s2, 'cmdline', has_file, 'noop', key)
    if chk.left() < 30:
        chk.cap('too many cases for the deadline')
    outs = cli.run_cases(cases)
    base = {}
    for (r, fs, so), m in zip(outs, meta):
        if m['kind'] == 'base':
            base[m['base']] = (cli.observable(r, fs, so), r, fs, so)
    n_rule = n_diff = n_noop = 0
    distinct = set()
    for (r, fs, so), m in zip(outs, meta):
        obs = cli.observable(r, fs, so)
        distinct.add((m['name'], m['seq'], m['file']))
        if r['sanitizer'] or r['kind'] not in ('exit',):
            chk.violation('C22|abnormal|%s' % r['kind'], '%s %s (%s, %s): run ends with %s(%s) %s' % (
                m['name'], ' '.join(m['seq']), m['placement'], 'FILE' if m['file'] else 'filter', r['kind'], r['code'], r['stderr_head']),
                {'engine': 'lbzx-batch', 'case': {k: v for k, v in m.items() if k != 'base'}})
            continue
        if m['kind'] in ('env', 'noop'):
            b = base[m['base']][0]
            if m['kind'] == 'env': n_diff += 1
            else: n_noop += 1
            if obs != b:
                what = ('tokens %s placed as %s behave differently from the command line' % (list(m['seq']), m['placement'])) if m['kind'] == 'env' \
                    else ('inserting the ignored option changes the run: %s vs %s' % (list(m['seq']), list(m['base'][1])))
                chk.violation('C22|%s|%s|%s' % (m['kind'], m['placement'], ' '.join(expand(m['seq']))[:20]),
                              '%s as %s, %s: %s; observed %s, command-line form gives %s' % (
                                  list(m['seq']), m['name'], 'FILE' if m['file'] else 'filter', what, obs[:4], b[:4]),
                              {'engine': 'lbzx-batch', 'case': {k: v for k, v in m.items() if k != 'base'}})
        if m['kind'] == 'base':
            rl = rule(m['name'], m['seq'], m['file'])
            if rl is None:
                continue
            n_rule += 1
            did = classify(r, fs, so, m['file'])
            why = None
            if rl['fatal']:
                if did.get('what') != 'fatal':
                    why = '-c with -t must be fatal, the run did: %s' % did
            else:
                want = 'decompressed' if rl['mode'] == 'd' else 'compressed'
                if rl['dest'] == 'discard':
                    if did.get('what') != 'nothing-written' or r['code'] != 0:
                        why = 'expected a test run (nothing written, status 0), the run did: %s' % did
                else:
                    if did.get('what') != want:
                        why = 'expected input to be %s, the run did: %s' % (want, did)
                    elif rl['dest'] == 'stdout' and did.get('where') != 'stdout':
                        why = 'expected output on stdout, got %s' % did.get('where')
                    elif rl['dest'] == 'file' and did.get('where') != ('file:in.bz2' if rl['mode'] == 'z' else 'file:in.out'):
                        why = 'expected output file %s, got %s' % ('in.bz2' if rl['mode'] == 'z' else 'in.out', did.get('where'))
                    elif want == 'compressed' and did.get('level') != rl['level']:
                        why = 'expected level %d, got %s' % (rl['level'], did.get('level'))
                    elif m['file'] and rl['dest'] == 'file' and did.get('input_left') != rl['keep']:
                        why = 'input file %s' % ('removed although -k' if rl['keep'] else 'left behind without -k')
            if why:
                chk.violation('C22|rule|%s|%s' % (m['name'], ' '.join(expand(m['seq']))[:24]),
                              'invoked as %s with %s (%s): %s' % (m['name'], list(m['seq']), 'FILE operand' if m['file'] else 'filter', why),
                              {'engine': 'lbzx-batch', 'case': {k: v for k, v in m.items() if k != 'base'}})
    chk.cov.update({'evaluations': len(cases), 'distinct_nontrivial': len(distinct),
                    'states': len(distinct), 'transitions': len(cases), 'traces_validated_against_impl': len(cases),
                    'rule': 'operation sequences = option token sequences up to depth %d over %d tokens, x %d invocation names x {filter, FILE}; each also with the '
                            'tokens moved into LBZIP2 / BZIP2 (tabs) / split over LBZIP2,BZIP2,BZIP / BZIP+command line, and with each ignored option inserted at '
                            'each position; distinct = distinct (name, sequence, operand)' % (depth, len(toks), len(NAMES)),
                    'rule_table_verdicts': n_rule, 'environment_vs_cmdline_comparisons': n_diff, 'noop_insertion_comparisons': n_noop})
    chk.sample({'name': meta[5]['name'], 'tokens': list(meta[5]['seq']), 'placement': meta[5]['placement'], 'observed': [str(x) for x in cli.observable(*outs[5])[:4]]})
    chk.sample({'name': meta[-1]['name'], 'tokens': list(meta[-1]['seq']), 'placement': meta[-1]['placement'], 'observed': [str(x) for x in cli.observable(*outs[-1])[:4]]})
    chk.assumptions += ['-t followed by -d/-z is not defined by the statement or the manual page: only the differential oracles apply there',
                        'the observable is what the run did (bytes, destination), never an internal flag']
    return chk.finish()
