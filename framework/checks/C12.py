"""C12 No data races between threads.

ThreadSanitizer is the per-execution oracle inside the controlled exploration:
the tsan build of lbzx tells the race detector about exactly lbzip2's own
synchronisation (mutexes, thread creation, join); the scheduler's hand-off is
invisible to it.  Every explored schedule changes which critical sections
precede which, so orderings that are only 'lucky' under the default schedule
are broken up systematically."""
import bz2, os
from lib import common, sched, inputs, lbzx

LEVEL = 'model_checking'

def symbolize(variant, note):
    """replace 'pc 0x..' in a race note by function and source line"""
    import re, subprocess
    from lib import build
    exe = build.lbzx(variant)
    def sub(m):
        try:
            o = subprocess.run(['addr2line', '-f', '-e', exe, m.group(1)], stdout=subprocess.PIPE, text=True).stdout.split('\n')
            return '%s %s' % (o[0], o[1].replace(build.REPO + '/', ''))
        except Exception:
            return m.group(0)
    note = re.sub(r'pc (0x[0-9a-f]+)', sub, note)
    m = re.search(r'global at (0x[0-9a-f]+)', note)
    if m:
        try:
            best = None
            for line in subprocess.run(['nm', '-n', exe], stdout=subprocess.PIPE, text=True).stdout.split('\n'):
                f = line.split()
                if len(f) == 3 and int(f[0], 16) <= int(m.group(1), 16):
                    best = f[2]
            note = note.replace(m.group(0), 'global `%s\' (%s)' % (best, m.group(1)))
        except Exception:
            pass
    return note

def garbage_family(quick):
    """valid streams of every length residue mod 4, followed by trailing
    garbage of several lengths: where the end of the last stream and the first
    garbage bits fall relative to the 32-bit words and the input blocks decides
    which end-of-input path the parser takes (and which variables it reads)"""
    res = {}
    i = 0
    while len(res) < 4:
        s = bz2.compress(b'hello hello hello' + b'x' * i, 1) + bz2.compress(b'second', 9)
        i += 1
        res.setdefault(len(s) % 4, s)
    out = []
    for m, s in sorted(res.items()):
        for gl in ((2, 4, 45) if quick else (1, 2, 3, 4, 5, 9, 45)):
            out.append(('len%%4=%d garbage=%d' % (m, gl), s + (b'\0garbage!' * 6)[:gl]))
    return out

def run(tier):
    chk = common.Check('C12', LEVEL, tier, quick_deadline=170, thorough_deadline=1700)
    quick = tier == 'quick'

    def oracle_hb(c):
        if c['inv'] & 512:
            return symbolize('hbrace', c.get('note', 'data race'))
        if c['kind'] in ('crash', 'deadlock', 'horizon', 'rawexit'):
            return 'execution ended by %s(%s) %s' % (c['kind'], c['code'], c['stderr_head'][:120])
        return None

    def oracle(c):
        if c['sanitizer']:
            return 'ThreadSanitizer: ' + c['stderr_head'][:200]
        if c['kind'] in ('crash', 'deadlock', 'horizon', 'rawexit'):
            return 'execution ended by %s(%s) %s' % (c['kind'], c['code'], c['stderr_head'][:120])
        return None

    n3 = inputs.kind('N', 250000)
    s3 = bz2.compress(n3, 1)
    s2 = bz2.compress(inputs.kind('N', 120000, 1), 1) + bz2.compress(inputs.kind('Z', 5000), 1) + b'\0junk'
    bad = bytearray(s3); bad[12] ^= 1
    def cells_for(Ws, shapes, copies, full):
        cells = []
        for W in Ws:
            w = '-n%d' % W
            for sp in shapes:
                cells.append(('compress', [w, '-1'], inputs.shape(sp), 'shape=%r W=%d' % (sp, W), {}))
                cells.append(('compress-seq', [w, '-1', '-u'], inputs.shape(sp), 'shape=%r W=%d' % (sp, W), {}))
            cells.append(('decompress', [w, '-d'], s3, '3blk W=%d' % W, {}))
            cells.append(('decompress', [w, '-d'], s3, '3blk in32/out40000 W=%d' % W,
                          {'setenv': {'LBZIP2_VERIF_IN_GRANUL': '32', 'LBZIP2_VERIF_OUT_GRANUL': '40000'}}))
            cells.append(('decompress', [w, '-d'], s2, '2streams+garbage in16 W=%d' % W,
                          {'setenv': {'LBZIP2_VERIF_IN_GRANUL': '16'}}))
            cells.append(('decompress-bad', [w, '-d'], bytes(bad), 'bad block crc W=%d' % W, {}))
            if full:
                cells.append(('decompress-test', [w, '-t'], s3, '3blk -t W=%d' % W, {}))
                cells.append(('decompress-verbose', [w, '-d', '-v'], s3, '3blk -v W=%d' % W, {}))
        for n in copies:
            data = (b'xy' + inputs.lcg(max(0, n - 2), 5))[:n]
            cells.append(('copy', ['-cdf'], data, 'copy n=%d' % n, {}))
        return cells

    # ---- leg 1: happens-before detector on lbzip2's globals, fast in-process executor
    gf = garbage_family(quick)
    cases, meta = [], []
    for name, data in gf:
        for W in (2, 3):
            for ig in range(4, len(data) + 8, 4):
                for pol in (0, 1, 2):
                    cases.append({'argv': ['lbzip2', '-d', '-n%d' % W], 'env': {'LBZIP2_VERIF_IN_GRANUL': str(ig)}, 'stdin': data, 'policy': pol})
                    meta.append((name, data, W, ig, pol))
    res = lbzx.batch('hbrace', cases, timeout=120)
    for x, (name, data, W, ig, pol) in zip(res, meta):
        if x['inv'] & 512 or x['kind'] in ('crash', 'deadlock', 'horizon', 'rawexit'):
            p = os.path.join(common.scratch('c12'), 'in')
            open(p, 'wb').write(data)
            rr = lbzx.run('hbrace', ['-d', '-n%d' % W], stdin_path=p, policy='P%d' % pol, setenv={'LBZIP2_VERIF_IN_GRANUL': str(ig)})
            chk.violation('C12|hb-canon|%s' % symbolize('hbrace', rr.get('note', ''))[:80],
                          'hbrace, stream %s, -d -n%d in_granul=%d policy P%d: %s(%s) %s' % (name, W, ig, pol, x['kind'], x['code'], symbolize('hbrace', rr.get('note', ''))),
                          {'engine': 'lbzx', 'variant': 'hbrace', 'cmdline': ' '.join(rr['cmd']), 'stdin_hex': data.hex()})
    chk.leg('hbrace-garbage-alignment-canonical', cases=len(cases), streams=len(gf))
    hb = sched.Explorer(chk, par=4, jobs=4)
    for leg, args, data, desc, opts in cells_for([2, 3] if quick else [1, 2, 3, 4], ['ZZs', 'E', 'EZ', ''] if quick else ['ZZs', 'E', 'EZ', 'ZZZ', 'Zs', '', 'C'],
                                                 [3, 70000, 140000], True):
        hb.add('hb:' + leg, 'hbrace', args, data, oracle_hb, desc, opts)
    for name, data in gf:
        E = len(data)
        for ig in sorted({4, 8, 16} | {g for g in range(4, E + 4, 4) if (E % g) in (0, 2) or g >= E}):
            if quick and ig not in (4, 8) and ig < E - 50:
                continue
            hb.add('hb:garbage-alignment', 'hbrace', ['-d', '-n2'], data, oracle_hb, '%s in_granul=%d' % (name, ig),
                   {'setenv': {'LBZIP2_VERIF_IN_GRANUL': str(ig)}})
    def nthreads(c):
        return 3 if c.leg.endswith('copy') else int(c.args[0][2:]) + 3 if c.args[0].startswith('-n') else 5
    def nthr(c):
        for a in c.args:
            if a.startswith('-n'):
                return int(a[2:]) + 3
        return 3
    hb.run_priorities(nthr, cells=[c for c in hb.cells if nthr(c) <= (5 if quick else 6) and c.leg != 'hb:garbage-alignment'])
    if not quick:
        # the race oracle under priority-change points, on the streams that stress the speculative paths (C11)
        from checks import C11
        s_stale, s_junk = C11.spec_shapes()
        hbp = sched.Explorer(chk, par=4, jobs=4, scratch=hb.dir)
        hbp.add('hb:priority-change', 'hbrace', ['-n3', '-d'], s_junk, oracle_hb, '20+60 spurious headers W=3 in64',
                {'setenv': {'LBZIP2_VERIF_IN_GRANUL': '64'}, 'nprio': 6, 'demote': 1}, policies='prio:6')
        hbp.add('hb:priority-change', 'hbrace', ['-n3', '-d'], s_stale, oracle_hb, 'carrier(3 planted blocks)+small+60-buffer block W=3 in64/out40',
                {'setenv': {'LBZIP2_VERIF_IN_GRANUL': '64', 'LBZIP2_VERIF_OUT_GRANUL': '40'}, 'nprio': 6, 'demote': 1}, policies='prio:6')
        hbp.run_pass(1, time_limit=400)
        hbp.finish_cov('')
    hb_done = -1
    for d in range(1, (2 if quick else 3) + 1):
        sel = hb.cells
        if quick and d == 2:
            # deepest bound of the quick tier: the two-worker cells and the copy pipeline
            sel = [c for c in hb.cells if (c.leg != 'hb:garbage-alignment' and '-n2' in c.args) or c.leg == 'hb:copy']
        if not hb.run_pass(d, cells=sel, time_limit=max(5, chk.left() - (80 if quick else 700))):
            break
        hb_done = d
    chk.cov['hbrace_bound_completed'] = hb_done
    hb.finish_cov('leg hbrace: every execution with <= d deviations from P0/P1/P2 and every strict-priority scheduler, built with the '
                  'happens-before detector for lbzip2\'s globals (vsched.c); oracle: no unordered conflicting access pair.')

    # ---- leg 2: ThreadSanitizer build (all memory, incl. heap objects handed between threads)
    ex = sched.Explorer(chk, par=4, jobs=4)
    maxd = 1 if quick else 2
    for leg, args, data, desc, opts in cells_for([2, 3] if quick else [1, 2, 3, 4], ['ZZs', 'E'] if quick else ['ZZs', 'E', 'EZ', 'ZZZ', 'Zs', ''],
                                                 [3, 70000] if quick else [0, 3, 70000, 140000], not quick):
        ex.add(leg, 'tsan', args, data, oracle, desc, opts)
    from lib import bzgen
    tiny3 = bzgen.build([([bzgen.Block(b'block one '), bzgen.Block(b'second block, longer than the first'), bzgen.Block(b'3rd')], 1)])[0]
    for W in (2, 3):
        ex.add('decompress-tiny', 'tsan', ['-n%d' % W, '-d'], tiny3 + b'\0trailing', oracle, 'tiny 3blk+garbage in8/out7 W=%d' % W,
               {'setenv': {'LBZIP2_VERIF_IN_GRANUL': '8', 'LBZIP2_VERIF_OUT_GRANUL': '7'}})
    done = -1
    for d in range(0, maxd + 1):
        sel = ex.cells
        if quick and d == 1:
            sel = [c for c in ex.cells if '-n2' in c.args or c.leg == 'copy']
        if not ex.run_pass(d, cells=sel):
            break
        done = d
    chk.cov['bound_completed_all_cells'] = done
    ex.finish_cov('leg tsan: every execution with <= d deviations from schedulers P0/P1/P2 of the ThreadSanitizer build; '
                  'oracle: no race report.  States as in C11.')
    chk.cov['evaluations'] += len(cases)
    chk.assumptions += ['ThreadSanitizer happens-before analysis with its finite per-location history',
                        'hbrace detector: globals of lbzip2 only (sections lbz_data/lbz_bss), synchronisation edges = mutex unlock->lock, flockfile, create, join, kill->signal delivery',
                        'sequentially consistent interleavings only',
                        'execution boundaries of the in-process executor are full barriers for the detector']
    return chk.finish()
