"""C12 No data races between threads.

ThreadSanitizer is the per-execution oracle inside the controlled exploration:
the tsan build of lbzx tells the race detector about exactly lbzip2's own
synchronisation (mutexes, thread creation, join); the scheduler's hand-off is
invisible to it.  Every explored schedule changes which critical sections
precede which, so orderings that are only 'lucky' under the default schedule
are broken up systematically."""
import bz2
from lib import common, sched, inputs, lbzx

LEVEL = 'model_checking'

def run(tier):
    chk = common.Check('C12', LEVEL, tier, quick_deadline=170, thorough_deadline=1700)
    ex = sched.Explorer(chk, par=4, jobs=4)
    quick = tier == 'quick'
    maxd = 1 if quick else 2

    def oracle(c):
        if c['sanitizer']:
            return 'ThreadSanitizer: ' + c['stderr_head'][:200]
        if c['kind'] in ('crash', 'deadlock', 'horizon', 'rawexit'):
            return 'execution ended by %s(%s) %s' % (c['kind'], c['code'], c['stderr_head'][:120])
        return None

    n3 = inputs.kind('N', 250000)
    s3 = bz2.compress(n3, 1)
    s2 = bz2.compress(inputs.kind('N', 120000, 1), 1) + bz2.compress(inputs.kind('Z', 5000), 1) + b'\0junk'
    bad = bytearray(s3); bad[12] ^= 1
    cells = []
    for W in ([2, 3] if quick else [1, 2, 3, 4]):
        w = '-n%d' % W
        for sp in (['ZZs', 'E'] if quick else ['ZZs', 'E', 'EZ', 'ZZZ', 'Zs', '']):
            cells.append(('compress', [w, '-1'], inputs.shape(sp), 'shape=%r W=%d' % (sp, W), {}))
            cells.append(('compress-seq', [w, '-1', '-u'], inputs.shape(sp), 'shape=%r W=%d' % (sp, W), {}))
        cells.append(('decompress', [w, '-d'], s3, '3blk W=%d' % W, {}))
        cells.append(('decompress', [w, '-d'], s3, '3blk in32/out40000 W=%d' % W,
                      {'setenv': {'LBZIP2_VERIF_IN_GRANUL': '32', 'LBZIP2_VERIF_OUT_GRANUL': '40000'}}))
        cells.append(('decompress', [w, '-d'], s2, '2streams+garbage in16 W=%d' % W,
                      {'setenv': {'LBZIP2_VERIF_IN_GRANUL': '16'}}))
        cells.append(('decompress-bad', [w, '-d'], bytes(bad), 'bad block crc W=%d' % W, {}))
        if not quick:
            cells.append(('decompress-test', [w, '-t'], s3, '3blk -t W=%d' % W, {}))
    for n in ([3, 70000] if quick else [0, 3, 70000, 140000]):
        data = (b'xy' + inputs.lcg(max(0, n - 2), 5))[:n]
        cells.append(('copy', ['-cdf'], data, 'copy n=%d' % n, {}))
    for leg, args, data, desc, opts in cells:
        ex.add(leg, 'tsan', args, data, oracle, desc, opts)
    done = -1
    for d in range(0, maxd + 1):
        if not ex.run_pass(d):
            break
        done = d
    chk.cov['bound_completed_all_cells'] = done
    ex.finish_cov('every execution with <= d deviations from schedulers P0/P1/P2 of the ThreadSanitizer build; '
                  'oracle: no race report.  States as in C11.')
    chk.assumptions += ['ThreadSanitizer happens-before analysis with its finite per-location history',
                        'sequentially consistent interleavings only',
                        'execution boundaries of the in-process executor are full barriers for the detector']
    return chk.finish()
