"""C17 File operands follow the documented naming and safety rules.

Exhaustive configuration product (mode x -k/-c/-t/-f x operand type x name
suffix x pre-existing output x permission bits x timestamps), one fresh
directory per case, whole program in-process with real system calls; the
result is compared with a table model transcribed from the statement and the
manual page (not from main.c)."""
import bz2, itertools
from lib import common, cli, bzref

LEVEL = 'exploration'

TEXT = b'C17 payload\n' * 20
COMP = bz2.compress(TEXT, 9)
SENTINEL = b'pre-existing file that must survive\n'
SUFFIXES = ['', '.bz2', '.tbz', '.tbz2', '.tz2', '.txt', '.bz2.bz2', 'BARE.bz2', 'BARE.tbz2']
T_OLD = (946684800_123456789, 946684900_987654321)       # atime, mtime (2000, with nanoseconds)
T_90s = (631152000_000000000, 662688000_500000000)

def out_name(mode, name):
    if mode == 'z':
        return name + '.bz2'
    for suf, rep in (('.bz2', ''), ('.tbz2', '.tar'), ('.tbz', '.tar'), ('.tz2', '.tar')):
        if name.endswith(suf):
            return name[:-len(suf)] + rep
    return name + '.out'

def model(mode, flags, optype, name, pre, perm):
    """-> dict(action, status set, out, sentinel_survives, input_removed) or None (not defined)"""
    k, c, t, f = ('k' in flags), ('c' in flags), ('t' in flags), ('f' in flags)
    if t:
        mode = 'd'
    to_files = not c and not t
    compressed_suffix = any(name.endswith(s) for s in ('.bz2', '.tbz', '.tbz2', '.tz2'))
    if optype == 'missing':
        return {'action': 'skip', 'status': {4}}
    if optype == 'directory':
        if f or not to_files:
            return None             # opening a directory: outcome not described
        return {'action': 'skip', 'status': {4}}
    if to_files and not f:
        if optype == 'symlink':
            return {'action': 'skip', 'status': {4}}
        if optype == 'hardlink' and not k:
            return {'action': 'skip', 'status': {4}}
    if mode == 'z' and compressed_suffix:
        return {'action': 'skip', 'status': {4}}
    if not to_files:
        return {'action': 'stream', 'status': {0}, 'dest': 'stdout' if c else 'discard'}
    out = out_name(mode, name)
    if out == '' or out == name:
        return None
    if pre != 'absent' and not f:
        return {'action': 'skip', 'status': {4}, 'out': out, 'sentinel': True}
    st = {0, 4} if perm & 0o7000 else {0}
    return {'action': 'file', 'status': st, 'out': out, 'removed': not k}

def run(tier):
    chk = common.Check('C17', LEVEL, tier, quick_deadline=170, thorough_deadline=1500)
    quick = tier == 'quick'
    perms = [0o600, 0o644, 0o400, 0o755, 0o4755] if not quick else [0o640, 0o4755]
    times = [T_OLD, T_90s] if not quick else [T_OLD]
    flagsets = [fs for n in range(0, 5) for fs in itertools.combinations('kctf', n) if not ('c' in fs and 't' in fs)]
    cases, meta = [], []
    for mode in 'zd':
        for flags in flagsets:
            if 't' in flags and mode == 'z':
                continue
            for optype in ('regular', 'symlink', 'hardlink', 'directory', 'missing'):
                for suf in SUFFIXES:
                    name = ('file' + suf) if not suf.startswith('BARE') else suf[4:]
                    for pre in ('absent', 'regular', 'readonly'):
                        for perm in perms:
                            for tm in times:
                                if optype in ('directory', 'missing') and (perm != perms[0] or tm != times[0]):
                                    continue
                                if pre != 'absent' and (perm != perms[0] or tm != times[0]):
                                    continue
                                m = model(mode, flags, optype, name, pre, perm)
                                content = TEXT if (mode == 'z' and 't' not in flags) else COMP
                                files = {}
                                if optype == 'regular':
                                    files[name] = ('f', content, perm, tm[1], tm[0])
                                elif optype == 'symlink':
                                    files['target-of-link'] = ('f', content, perm, tm[1], tm[0])
                                    files[name] = ('l', 'target-of-link')
                                elif optype == 'hardlink':
                                    files[name] = ('f', content, perm, tm[1], tm[0])
                                    files['second-link'] = ('h', name)
                                elif optype == 'directory':
                                    files[name] = ('d',)
                                on = out_name('d' if 't' in flags else mode, name)
                                if pre != 'absent' and on and on != name and on not in files:
                                    files[on] = ('f', SENTINEL, 0o444 if pre == 'readonly' else 0o644)
                                elif pre != 'absent':
                                    continue
                                args = ['-n2'] + (['-d'] if mode == 'd' else ['-z']) + ['-' + x for x in flags] + ['--', name]
                                cases.append({'argv0': 'lbzip2', 'args': args, 'files': files})
                                meta.append({'mode': mode, 'flags': ''.join(flags), 'optype': optype, 'name': name, 'pre': pre, 'perm': perm,
                                             'tm': tm, 'model': m, 'files': files, 'out': on})
    outs = cli.run_cases(cases)
    verdicts = 0
    distinct = set()
    for (r, fs, so), m in zip(outs, meta):
        md = m['model']
        cfgkey = (m['mode'], m['flags'], m['optype'], m['name'], m['pre'])
        distinct.add(cfgkey + (m['perm'], m['tm']))
        why = None
        before = m['files']
        if r['sanitizer'] or r['kind'] != 'exit':
            why = 'run ends with %s(%s) %s' % (r['kind'], r['code'], r['stderr_head'])
        elif r['inv'] & (256 | 1024 | 2048):
            from lib import sched as _s
            why = 'invariant broken: ' + _s.inv_text(r['inv'] & (256 | 1024 | 2048))
        elif md is not None:
            verdicts += 1
            name, on = m['name'], m['out']
            def unchanged(n):
                b, a = before.get(n), fs.get(n)
                if b is None: return a is None
                if a is None: return False
                if b[0] == 'f': return a['type'] == 'f' and a['data'] == b[1] and a['mode'] == (b[2] if len(b) > 2 else 0o644)
                if b[0] == 'l': return a['type'] == 'l'
                if b[0] == 'd': return a['type'] == 'd'
                if b[0] == 'h': return a['type'] == 'f'
                return True
            if r['code'] not in md['status']:
                why = 'exit status %d, documented %s' % (r['code'], sorted(md['status']))
            elif (r['code'] == 4) != (r['stderr_len'] > 0) and not (md['action'] != 'skip' and r['code'] == 0):
                why = 'status %d but %s on stderr' % (r['code'], 'nothing' if not r['stderr_len'] else 'a message')
            elif md['action'] == 'skip':
                for n in before:
                    if not unchanged(n):
                        why = 'skipped operand, but %s was modified or removed' % n
                extra = [n for n in fs if n not in before]
                if extra and not why:
                    why = 'skipped operand, but new files appeared: %s' % extra
                if so and not why:
                    why = 'skipped operand, but %d bytes on stdout' % len(so)
            elif md['action'] == 'stream':
                for n in before:
                    if not unchanged(n):
                        why = '-c/-t run modified or removed %s' % n
                extra = [n for n in fs if n not in before]
                if extra and not why:
                    why = '-c/-t run created %s' % extra
                if not why:
                    if md['dest'] == 'discard' and so:
                        why = '-t wrote %d bytes to stdout' % len(so)
                    if md['dest'] == 'stdout':
                        good = (so == TEXT) if m['mode'] == 'd' else (bzref.libbz2(so) == (True, TEXT))
                        if not good:
                            why = '-c output is not the %s input' % ('decompressed' if m['mode'] == 'd' else 'compressed')
            elif md['action'] == 'file':
                o = fs.get(on)
                src = before.get(name)
                if o is None or o['type'] != 'f':
                    why = 'output file %r missing; directory holds %s' % (on, sorted(fs))
                else:
                    good = (o['data'] == TEXT) if m['mode'] == 'd' else (bzref.libbz2(o['data']) == (True, TEXT))
                    if not good:
                        why = 'output file %r does not hold the %s input' % (on, 'decompressed' if m['mode'] == 'd' else 'compressed')
                    elif o['mode'] != (m['perm'] & 0o777):
                        why = 'output mode %o, input mode %o' % (o['mode'], m['perm'] & 0o777)
                    elif o['mtime_ns'] != m['tm'][1] or o['atime_ns'] != m['tm'][0]:
                        why = 'output times (%d, %d) differ from the input times (%d, %d)' % (o['atime_ns'], o['mtime_ns'], m['tm'][0], m['tm'][1])
                    elif md['removed'] and name in fs:
                        why = 'input %r not removed (no -k)' % name
                    elif not md['removed'] and not unchanged(name):
                        why = 'input %r modified or removed although -k' % name
                    else:
                        extra = [n for n in fs if n not in before and n != on]
                        if extra:
                            why = 'stray files %s' % extra
        # rule 1 for every case, defined or not: without -f an existing output file is never modified
        if why is None and m['pre'] != 'absent' and 'f' not in m['flags'] and fs is not None:
            o = fs.get(m['out'])
            if o is None or o.get('data') != SENTINEL:
                why = 'existing file %r was modified or removed without -f' % m['out']
        if why:
            chk.violation('C17|%s|%s|%s|%s' % (m['mode'], m['flags'], m['optype'], why.split(',')[0][:40]),
                          'lbzip2 %s in a directory with %s: %s [stderr: %s]' % (' '.join(cases[meta.index(m)]['args']),
                              {k: v[0] for k, v in before.items()}, why, r['stderr_head'][:100]),
                          {'engine': 'lbzx-batch', 'config': {k: str(v) for k, v in m.items() if k not in ('files', 'model')}})
    # ---- rule 1 under faults: an operand that is skipped because its output exists (no -f), or because it is a
    # symlink / has several links / a compressed suffix, while the diagnostic itself cannot be written (stderr
    # broken: EPIPE+SIGPIPE, EIO) or one file-system call fails or one scheduling choice differs: nothing that
    # existed before may change.  Every execution with <= 1 (2) such deviations.
    import os
    from lib import sched, fsx, common as _c
    ex = sched.Explorer(chk, par=4, jobs=4)
    root = _c.scratch('c17f')
    def fault_cell(tag, args, files):
        t = os.path.join(root, 't' + tag); w = os.path.join(root, 'w' + tag)
        os.makedirs(t); os.makedirs(w)
        want = {}
        for fn, (data, mode) in files.items():
            fsx.make_file(os.path.join(t, fn), data, mode)
            want[fn] = (_c.fnv64(data), len(data), mode)
        def orc(c):
            if c['sanitizer']:
                return 'sanitizer report'
            if c['kind'] not in ('exit', 'signal'):
                return 'ended by %s(%s)' % (c['kind'], c['code'])
            fs = fsx.parse_fs(c['fs'])
            for fn, (h, n, mode) in want.items():
                a = fs.get(fn)
                if a is None:
                    return 'skipped operand (no -f): %s was removed' % fn
                if a['hash'] != h or a['size'] != n or a['mode'] != mode:
                    return 'skipped operand (no -f): %s was modified' % fn
            extra = [n for n in fs if n not in want]
            if extra:
                return 'skipped operand, but new files appeared: %s' % extra
            if c['kind'] == 'exit' and c['code'] == 0:
                return 'exit status 0 for a skipped operand'
            return None
        ex.add('skip-under-faults', 'fast', args, None, orc, tag,
               {'fs_template': t, 'fs_work': w, 'env_all_fds': True, 'fenv': 'err', 'senv': 'epipe,eio'}, policies='P0')
    fault_cell('z-exists', ['-n2', '-z', 'file'], {'file': (TEXT, 0o644), 'file.bz2': (SENTINEL, 0o644)})
    fault_cell('d-exists', ['-n2', '-d', 'file.bz2'], {'file.bz2': (COMP, 0o644), 'file': (SENTINEL, 0o600)})
    fault_cell('d-exists-tbz', ['-n2', '-d', 'x.tbz2'], {'x.tbz2': (COMP, 0o644), 'x.tar': (SENTINEL, 0o644)})
    fault_cell('z-suffix', ['-n2', '-z', 'a.bz2'], {'a.bz2': (TEXT, 0o644)})
    fault_cell('z-exists-then-ok', ['-n2', '-z', 'file', 'other'], {'file': (TEXT, 0o644), 'file.bz2': (SENTINEL, 0o644), 'other.bz2': (SENTINEL, 0o640), 'other': (TEXT, 0o600)})
    for d in range(1, (1 if quick else 2) + 1):
        if not ex.run_pass(d):
            break
    ex.finish_cov('')
    chk.cov.update({'evaluations': chk.cov.get('evaluations', 0) + len(cases), 'distinct_nontrivial': chk.cov.get('distinct_nontrivial', 0) + len(distinct),
                    'rule': 'product mode{z,d} x legal subsets of {-k,-c,-t,-f} x operand{regular,symlink,hard-linked,directory,missing} x name suffix '
                            '%s x pre-existing output{absent,regular,read-only} x permission bits %s x %d timestamp pairs (dimensions irrelevant for an operand '
                            'type are fixed); distinct = distinct configurations' % (SUFFIXES, [oct(p) for p in perms], len(times)),
                    'model_verdicts': verdicts, 'configurations_without_documented_outcome': len(cases) - verdicts})
    for i in (0, len(cases) // 2, len(cases) - 1):
        chk.sample({'args': cases[i]['args'], 'files_before': {k: v[0] for k, v in meta[i]['files'].items()},
                    'model': {k: (sorted(v) if isinstance(v, set) else v) for k, v in (meta[i]['model'] or {}).items()},
                    'status': outs[i][0]['code'], 'files_after': sorted((outs[i][1] or {}).keys())})
    chk.assumptions += ['checks run as root: permission-denied cases cannot be produced and are not in the product',
                        'set-id bits: status 0 or 4 both accepted (the warning is not part of the statement)',
                        'opening a directory with -f / -c, and names whose output name would be empty, have no documented outcome: only rule 1 applies']
    return chk.finish()
