"""C19 -cdf passes non-bzip2 data through unchanged.

All executions (schedule and read-fragmentation deviations) of the three-thread
copy pipeline for sizes around 0..12 and the 64 KiB copy buffer, with every
near-miss of the stream magic; inputs that do begin with a stream header must
behave exactly as under plain -d."""
import bz2
from lib import common, sched, inputs, lbzx

LEVEL = 'model_checking'

def run(tier):
    chk = common.Check('C19', LEVEL, tier, quick_deadline=150, thorough_deadline=1500)
    quick = tier == 'quick'
    ex = sched.Explorer(chk, par=4, jobs=4)
    pol = sched.Explorer(chk, par=4, jobs=4, scratch=ex.dir)
    tail = inputs.lcg(200010, 3)
    heads = [b'', b'B', b'BZ', b'BZh', b'BZh0', b'BZh:', b'BZi9', b'AZh9', b'\x00', b'bzh9']
    sizes_small = list(range(0, 13))
    sizes_big = [65532, 65535, 65536, 65537, 65540, 131071, 131072, 131073, 131076, 196607, 196608, 196610]
    if quick:
        sizes_big = [65535, 65536, 65540, 131072, 131076, 196608]
    cells = []
    seen = set()
    for h in heads:
        for n in sizes_small + sizes_big:
            if n < len(h):
                continue
            if n > 12 and h not in (b'', b'BZh0', b'BZ'):
                continue
            data = h + tail[:n - len(h)]
            if len(data) >= 4 and data[:3] == b'BZh' and 0x31 <= data[3] <= 0x39:
                continue
            if data in seen:
                continue
            seen.add(data)
            cells.append(data)
    copy_orc = {}
    for data in cells:
        desc = 'head=%r n=%d' % (data[:4], len(data))
        orc = sched.expect_exact(0, data, allow_inv=4)
        small = len(data) <= 12
        ex.add('copy', 'fast', ['-cdf'], data, orc, desc, {'renv': 'short1,half'} if small or not quick else {})
        if small:
            pol.add('copy-frag1', 'fast', ['-cdf'], data, orc, desc + ' rfrag=1', {'rfrag': 1})
        else:
            pol.add('copy-frag4096', 'fast', ['-cdf'], data, orc, desc + ' rfrag=4096 wfrag=5000', {'rfrag': 4096, 'wfrag': 5000})
    # inputs that do begin with a stream header: same outcome as plain -d
    valid = bz2.compress(b'hello, copy path\n' * 20, 1)
    hdr = []
    for name, data in (('valid', valid), ('valid+garbage', valid + b'\0xyz'), ('BZh1+junk', b'BZh1' + tail[:50]),
                       ('BZh9 only', b'BZh9'), ('truncated', valid[:-5]), ('BZh5+zeros', b'BZh5' + bytes(40))):
        p = ex.file_for(data)
        r = lbzx.run('fast', ['-d'], stdin_path=p, save_stdout=p + '.dout')
        out = open(p + '.dout', 'rb').read()
        def orc(c, r=r, out=out, name=name):
            if c['sanitizer']:
                return 'sanitizer report'
            if c['kind'] != r['kind'] or c['code'] != r['code']:
                return '-cdf ends with %s(%s) where plain -d ends with %s(%s)' % (c['kind'], c['code'], r['kind'], r['code'])
            if r['code'] == 0 and (c['stdout_len'] != len(out) or c['stdout_hash'] != common.fnv64(out)):
                return '-cdf output differs from plain -d output'
            if r['code'] != 0 and c['stderr_len'] == 0:
                return 'no diagnostic'
            if r['code'] != 0 and c['stdout_len'] and not out.startswith(b''):
                return None
            return None
        for W in (1, 2):
            ex.add('header', 'fast', ['-cdf', '-n%d' % W], data, orc, '%s W=%d' % (name, W), {})
        chk.leg('header', reference_runs=1)
    # the copy must not depend on what the process did before: the same pass-through as the second
    # operand, after an operand that was decompressed, copied, skipped or empty (real files, -c -d -f)
    import os
    from lib import fsx
    root = common.scratch('c19m')
    hist = sched.Explorer(chk, par=4, jobs=4, scratch=ex.dir)
    firsts = {'bz': ('a.bz2', valid, b'hello, copy path\n' * 20), 'plain': ('q', b'first plain operand\n', b'first plain operand\n'),
              'plain70k': ('q', tail[:70000], tail[:70000]), 'empty': ('e', b'', b''), 'emptybz': ('e.bz2', bz2.compress(b''), b''),
              'missing': ('nope', None, b'')}
    seconds = [4, 5, 12, 65536, 70000, 140000] if not quick else [4, 12, 70000, 140000]
    k = 0
    for fname, (fn, fdata, fout) in firsts.items():
        for n in seconds:
            second = b'xy' + tail[1000:1000 + n - 2]
            t = os.path.join(root, 't%d' % k); w = os.path.join(root, 'w%d' % k); k += 1
            os.makedirs(t); os.makedirs(w)
            if fdata is not None:
                fsx.make_file(os.path.join(t, fn), fdata, 0o644)
            fsx.make_file(os.path.join(t, 'p'), second, 0o644)
            orc = sched.expect_exact(4 if fdata is None else 0, fout + second, stderr_empty=fdata is not None, allow_inv=4)
            hist.add('copy-after-' + fname, 'fast', ['-n2', '-c', '-d', '-f', fn, 'p'], None, orc, 'first=%s second n=%d' % (fname, n),
                     {'fs_template': t, 'fs_work': w})
    hist.run_pass(1 if quick else 2)
    maxd = 3 if quick else 4
    pol.run_pass(1)
    done = 0
    for d in range(1, maxd + 1):
        if d == maxd and quick:
            # deepest bound only for the small and the boundary-size inputs
            sel = [c for c in ex.cells if c.data is not None and (len(c.data) <= 12 or c.leg == 'header')]
            if ex.run_pass(d, cells=sel):
                chk.cov['bound_%d_cells' % d] = len(sel)
            break
        if not ex.run_pass(d):
            break
        done = d
    chk.cov['bound_completed_all_cells'] = done
    pol.finish_cov('')
    hist.finish_cov('copy as the second operand after a decompressed / copied / empty / missing first operand, all schedules with <= 1 (2) deviations.')
    ex.finish_cov('all executions with <= d deviations (schedule choices of main/reader/writer, short reads of 1 byte / half) '
                  'per input; oracle: status 0, stdout == input, stderr empty; header inputs: same outcome as plain -d.')
    chk.assumptions += ['pipe fragmentation is modelled by read() returning fewer bytes than asked']
    return chk.finish()
