"""C01 Compression round-trips exactly.

(a) function level: codec chain collect->encode->transmit->parse->retrieve->
    decode->emit over small scopes (framework/codecx);
(b) whole program: compression corpus x levels x modes x W, each output
    decompressed again by lbzip2 with another worker count;
(c) schedules: all executions with <= d deviations of compression runs (the
    one expected output of C03 is decompressed) and of a decompression run."""
import bz2
from lib import common, compcorpus, sched, inputs, lbzx

LEVEL = 'model_checking'

def run(tier):
    chk = common.Check('C01', LEVEL, tier, quick_deadline=170, thorough_deadline=1500)
    quick = tier == 'quick'
    c = compcorpus.run_all(tier)
    n = 0
    distinct = set()
    for i, m in enumerate(c['meta']):
        x, y = c['res'][i], c['dres'][i]
        n += 1
        distinct.add((m['in_sha'], m['level'], m['mode']))
        h, ln = c['in_hash'][m['in_sha']]
        why = None
        if x['sanitizer'] or y['sanitizer']:
            why = 'sanitizer report'
        elif not (x['kind'] == 'exit' and x['code'] == 0):
            why = 'compression ends with %s(%s) %s' % (x['kind'], x['code'], x['stderr_head'])
        elif x['stderr_len']:
            why = 'compression prints on stderr: ' + x['stderr_head']
        elif not (y['kind'] == 'exit' and y['code'] == 0):
            why = 'decompression of the output ends with %s(%s) %s' % (y['kind'], y['code'], y['stderr_head'])
        elif y['stderr_len']:
            why = 'decompression prints on stderr: ' + y['stderr_head']
        elif y['stdout_len'] != ln or y['stdout_hash'] != h:
            why = 'decompressed bytes differ from the input (%d bytes back)' % y['stdout_len']
        if why:
            chk.violation('C01|b|%s|%s' % (m['name'].split(':')[0], why[:30]),
                          'lbzip2 -n%d -%d %s on %s (%d bytes): %s' % (m['W'], m['level'], m['mode'], m['name'], m['in_len'], why),
                          {'engine': 'lbzx-batch', 'input': m})
    chk.leg('whole-program', roundtrips=n, distinct=len(distinct))
    # (c) schedules
    ex = sched.Explorer(chk, par=4, jobs=4)
    cells = []
    for sp in (['ZE', 'EZs'] if quick else ['ZE', 'EZs', 'ZZZ', 'CN', 'RZ']):
        data = inputs.shape(sp)
        for mode in ([], ['-u']):
            for W in ([2] if quick else [1, 2, 3]):
                args = ['-n%d' % W, '-1'] + mode
                def orc(cl, data=data, args=args):
                    if cl['sanitizer']:
                        return 'sanitizer report'
                    if cl['kind'] != 'exit' or cl['code'] != 0:
                        return 'compression ends with %s(%s)' % (cl['kind'], cl['code'])
                    if cl['stderr_len']:
                        return 'compression prints on stderr'
                    if cl['inv']:
                        return 'invariant broken: ' + sched.inv_text(cl['inv'], cl.get('note', ''))
                    # decompress this outcome class's output (once per class)
                    key = (cl['stdout_hash'], cl['stdout_len'])
                    if key not in orc.cache:
                        p = ex.file_for(data)
                        o = p + '.rt.' + cl['stdout_hash']
                        lbzx.run('fast', args, dev=cl['dev'], stdin_path=p, policy=cl['policy'], save_stdout=o)
                        comp = open(o, 'rb').read()
                        r = lbzx.batch('fast', [{'argv': ['lbzip2', '-d', '-n3'], 'stdin': comp}])[0]
                        good = (r['kind'] == 'exit' and r['code'] == 0 and r['stderr_len'] == 0 and
                                r['stdout_len'] == len(data) and r['stdout_hash'] == common.fnv64(data))
                        orc.cache[key] = None if good else 'output of this schedule does not decompress to the input: %s(%s) %d bytes' % (r['kind'], r['code'], r['stdout_len'])
                    return orc.cache[key]
                orc.cache = {}
                ex.add('schedules-compress', 'fast', args, data, orc, 'shape=%s W=%d %s' % (sp, W, ' '.join(mode)), {'wenv': 'short1,half'})
    plain = inputs.kind('N', 250000)
    s3 = bz2.compress(plain, 1)
    for W in ([2] if quick else [2, 3]):
        ex.add('schedules-decompress', 'fast', ['-n%d' % W, '-d'], s3, sched.expect_exact(0, plain), '3blk W=%d' % W,
               {'setenv': {'LBZIP2_VERIF_IN_GRANUL': '32', 'LBZIP2_VERIF_OUT_GRANUL': '30000'}})
    # output that accepts only part of each write() (a pipe with a slow reader): both directions, whole run
    fr = sched.Explorer(chk, par=4, jobs=4, scratch=ex.dir)
    for sp in ['ZE', 'EZs']:
        data = inputs.shape(sp)
        p0 = ex.file_for(data)
        o0 = p0 + '.wf.out'
        lbzx.run('fast', ['-n2', '-1'], stdin_path=p0, save_stdout=o0)
        comp = open(o0, 'rb').read()
        for wf in (1 + len(comp) // 300, 4096):
            fr.add('write-fragmentation', 'fast', ['-n2', '-1'], data, sched.expect_exact(0, comp), 'compress shape=%s wfrag=%d' % (sp, wf), {'wfrag': wf})
        for wf in (30000, 65536, 100001):
            fr.add('write-fragmentation', 'fast', ['-n2', '-d'], comp, sched.expect_exact(0, data), 'decompress shape=%s wfrag=%d' % (sp, wf), {'wfrag': wf})
            fr.add('write-fragmentation', 'fast', ['-n2', '-d'], comp, sched.expect_exact(0, data), 'decompress shape=%s wfrag=%d out_granul=50000' % (sp, wf),
                   {'wfrag': wf, 'setenv': {'LBZIP2_VERIF_OUT_GRANUL': '50000'}})
    fr.run_pass(1)
    fr.finish_cov('')
    done = 0
    for d in range(1, (2 if quick else 3) + 1):
        if not ex.run_pass(d):
            break
        done = d
    chk.cov['schedule_bound_completed'] = done
    tot = ex.finish_cov('(c) every execution with <= d deviations from P0/P1/P2.')
    chk.cov['evaluations'] += n
    chk.cov['distinct_nontrivial'] += len(distinct)
    chk.cov['rule'] = '(b) compression corpus (lib/compcorpus.py) x W, each output decompressed by lbzip2 with another worker count; ' + chk.cov['rule']
    chk.assumptions += ['unbounded inputs are decided for the enumerated scopes only (DESIGN.md section 7)']
    from checks import codec_legs
    codec_legs.c01_leg_a(chk, tier)
    return chk.finish()
