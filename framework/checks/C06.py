from checks import C05
def run(tier):
    return C05.run_property('C06', tier)
