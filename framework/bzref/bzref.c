/* bzref.c -- independent strict reference decoder and stream inspector for the
 * bzip2 format (engine E3, DESIGN.md section 2).
 *
 * Written from the format as implemented by bzip2 1.0.8, bit by bit, with no
 * tables, no resumption and no speculation.  It shares no code with lbzip2.
 *
 *   bzref decode  FILE [OUT]          verdict on stdout, plaintext to OUT
 *   bzref inspect FILE                JSON description of every stream/block
 *   bzref batch   FILE                FILE holds records: u32 length + bytes;
 *                                     one verdict line per record
 *
 * Verdict line:
 *   ok   <out_len> <out_fnv64> <flags> <nstreams> <nblocks>
 *   bad  <out_len> <out_fnv64> <flags> <reason> (output = bytes of the
 *        blocks that were complete and correct before the error)
 * flags (hex): 1 some group is coded by an incomplete table
 *              2 a block ends in four equal bytes without a count byte
 *              4 trailing garbage present and ignored
 *              8 a randomised block is present
 *             10 a table that no group uses is not a complete code
 *             20 more than 18002 selectors present (surplus discarded)
 *             40 some delta-code path touches lengths and comes back (zig-zag)
 */
#define _GNU_SOURCE
#include <stdint.h>
#include <stdio.h>
#include <stdlib.h>
#include <string.h>

typedef struct {
  const uint8_t *p;
  uint64_t nbits;               /* total */
  uint64_t pos;                 /* next bit */
  int eof;
} bits_t;

static unsigned
getbit(bits_t *b)
{
  unsigned v;
  if (b->pos >= b->nbits) {
    b->eof = 1;
    return 0;
  }
  v = (b->p[b->pos >> 3] >> (7 - (b->pos & 7))) & 1;
  b->pos++;
  return v;
}

static uint64_t
getbits(bits_t *b, int n)
{
  uint64_t v = 0;
  while (n-- > 0)
    v = (v << 1) | getbit(b);
  return v;
}

static uint32_t crctab[256];

static void
crc_init(void)
{
  uint32_t i, j, c;
  for (i = 0; i < 256; i++) {
    c = i << 24;
    for (j = 0; j < 8; j++)
      c = (c & 0x80000000u) ? (c << 1) ^ 0x04c11db7u : (c << 1);
    crctab[i] = c;
  }
}

/* the randomisation table of the format (bzip2's randtable.c) */
static const uint16_t rnums[512] = {
  619, 720, 127, 481, 931, 816, 813, 233, 566, 247, 985, 724, 205, 454, 863, 491,
  741, 242, 949, 214, 733, 859, 335, 708, 621, 574, 73, 654, 730, 472, 419, 436,
  278, 496, 867, 210, 399, 680, 480, 51, 878, 465, 811, 169, 869, 675, 611, 697,
  867, 561, 862, 687, 507, 283, 482, 129, 807, 591, 733, 623, 150, 238, 59, 379,
  684, 877, 625, 169, 643, 105, 170, 607, 520, 932, 727, 476, 693, 425, 174, 647,
  73, 122, 335, 530, 442, 853, 695, 249, 445, 515, 909, 545, 703, 919, 874, 474,
  882, 500, 594, 612, 641, 801, 220, 162, 819, 984, 589, 513, 495, 799, 161, 604,
  958, 533, 221, 400, 386, 867, 600, 782, 382, 596, 414, 171, 516, 375, 682, 485,
  911, 276, 98, 553, 163, 354, 666, 933, 424, 341, 533, 870, 227, 730, 475, 186,
  263, 647, 537, 686, 600, 224, 469, 68, 770, 919, 190, 373, 294, 822, 808, 206,
  184, 943, 795, 384, 383, 461, 404, 758, 839, 887, 715, 67, 618, 276, 204, 918,
  873, 777, 604, 560, 951, 160, 578, 722, 79, 804, 96, 409, 713, 940, 652, 934,
  970, 447, 318, 353, 859, 672, 112, 785, 645, 863, 803, 350, 139, 93, 354, 99,
  820, 908, 609, 772, 154, 274, 580, 184, 79, 626, 630, 742, 653, 282, 762, 623,
  680, 81, 927, 626, 789, 125, 411, 521, 938, 300, 821, 78, 343, 175, 128, 250,
  170, 774, 972, 275, 999, 639, 495, 78, 352, 126, 857, 956, 358, 619, 580, 124,
  737, 594, 701, 612, 669, 112, 134, 694, 363, 992, 809, 743, 168, 974, 944, 375,
  748, 52, 600, 747, 642, 182, 862, 81, 344, 805, 988, 739, 511, 655, 814, 334,
  249, 515, 897, 955, 664, 981, 649, 113, 974, 459, 893, 228, 433, 837, 553, 268,
  926, 240, 102, 654, 459, 51, 686, 754, 806, 760, 493, 403, 415, 394, 687, 700,
  946, 670, 656, 610, 738, 392, 760, 799, 887, 653, 978, 321, 576, 617, 626, 502,
  894, 679, 243, 440, 680, 879, 194, 572, 640, 724, 926, 56, 204, 700, 707, 151,
  457, 449, 797, 195, 791, 558, 945, 679, 297, 59, 87, 824, 713, 663, 412, 693,
  342, 606, 134, 108, 571, 364, 631, 212, 174, 643, 304, 329, 343, 97, 430, 751,
  497, 314, 983, 374, 822, 928, 140, 206, 73, 263, 980, 736, 876, 478, 430, 305,
  170, 514, 364, 692, 829, 82, 855, 953, 676, 246, 369, 970, 294, 750, 807, 827,
  150, 790, 288, 923, 804, 378, 215, 828, 592, 281, 565, 555, 710, 82, 896, 831,
  547, 261, 524, 462, 293, 465, 502, 56, 661, 821, 976, 991, 658, 869, 905, 758,
  745, 193, 768, 550, 608, 933, 378, 286, 215, 979, 792, 961, 61, 688, 793, 644,
  986, 403, 106, 366, 905, 644, 372, 567, 466, 434, 645, 210, 389, 550, 919, 135,
  780, 773, 635, 389, 707, 100, 626, 958, 165, 504, 920, 176, 193, 713, 857, 265,
  203, 50, 668, 108, 645, 990, 626, 197, 510, 357, 358, 850, 858, 364, 936, 638
};

#define MAXSEL 18002
#define F_INCOMPLETE_USED 0x1
#define F_MISSING_RUNLEN  0x2
#define F_TRAILING        0x4
#define F_RAND            0x8
#define F_UNUSED_BAD      0x10
#define F_SURPLUS_SEL     0x20
#define F_ZIGZAG          0x40

typedef struct {
  uint8_t *buf;
  size_t len, cap;
} obuf_t;

static void
oput(obuf_t *o, const uint8_t *p, size_t n)
{
  if (o->len + n > o->cap) {
    o->cap = (o->len + n) * 2 + 4096;
    o->buf = realloc(o->buf, o->cap);
    if (!o->buf) {
      fprintf(stderr, "bzref: out of memory\n");
      exit(3);
    }
  }
  memcpy(o->buf + o->len, p, n);
  o->len += n;
}

static uint64_t
fnv(const uint8_t *p, size_t n)
{
  uint64_t h = 1469598103934665603ull;
  while (n--) {
    h ^= *p++;
    h *= 1099511628211ull;
  }
  return h;
}

static FILE *insp;              /* non-NULL: write the JSON description */
static char reason[256];
static unsigned flags;
static unsigned nstreams, nblocks;

#define FAIL(...) do { snprintf(reason, sizeof reason, __VA_ARGS__); return -1; } while (0)

static uint32_t *tt;
static uint8_t *ll;             /* the BWT last column */
static uint8_t *plain;          /* block plaintext */

/* decode one block starting right after its 48-bit magic; the decoded bytes
   are appended to o only if the block is completely correct */
static int
block(bits_t *b, int level, obuf_t *o, uint32_t *blkcrc_out, int first_in_insp)
{
  uint32_t stored_crc, crc;
  unsigned randomised, origptr, map16, n_inuse = 0, alpha, ngroups, nsel, nsel_read;
  uint8_t seq2byte[256];
  static uint8_t selmtf[32768], sel[32768];
  uint8_t len[6][258];
  int kraft_state[6];           /* 0 complete, -1 incomplete, +1 oversubscribed */
  unsigned used_table[6] = { 0, 0, 0, 0, 0, 0 };
  unsigned i, j, t;
  uint32_t limit = (uint32_t)level * 100000u, nblock = 0;
  uint64_t blk_start = b->pos - 48;
  uint64_t symcount[6][258];
  unsigned zigzag = 0, groups_used = 0;

  memset(symcount, 0, sizeof symcount);
  stored_crc = (uint32_t)getbits(b, 32);
  randomised = getbit(b);
  origptr = (unsigned)getbits(b, 24);
  map16 = (unsigned)getbits(b, 16);
  if (b->eof) FAIL("truncated in block header");
  for (i = 0; i < 16; i++) {
    if (map16 & (0x8000u >> i)) {
      unsigned m = (unsigned)getbits(b, 16);
      for (j = 0; j < 16; j++)
        if (m & (0x8000u >> j))
          seq2byte[n_inuse++] = i * 16 + j;
    }
  }
  if (b->eof) FAIL("truncated in symbol map");
  if (n_inuse == 0) FAIL("no symbols in use");
  alpha = n_inuse + 2;
  ngroups = (unsigned)getbits(b, 3);
  if (b->eof) FAIL("truncated");
  if (ngroups < 2 || ngroups > 6) FAIL("bad number of tables %u", ngroups);
  nsel = (unsigned)getbits(b, 15);
  if (b->eof) FAIL("truncated");
  if (nsel < 1) FAIL("no selectors");
  for (i = 0; i < nsel; i++) {
    j = 0;
    for (;;) {
      unsigned bit = getbit(b);
      if (b->eof) FAIL("truncated in selectors");
      if (!bit) break;
      j++;
      if (j >= ngroups) FAIL("selector code too long");
    }
    selmtf[i] = j;
  }
  nsel_read = nsel;
  if (nsel > MAXSEL) {
    flags |= F_SURPLUS_SEL;
    nsel = MAXSEL;
  }
  {
    uint8_t pos[6], v;
    for (i = 0; i < ngroups; i++) pos[i] = i;
    for (i = 0; i < nsel; i++) {
      v = selmtf[i];
      t = pos[v];
      while (v > 0) { pos[v] = pos[v - 1]; v--; }
      pos[0] = t;
      sel[i] = t;
    }
  }
  /* coding tables: delta coded, every intermediate value within 1..20 */
  for (t = 0; t < ngroups; t++) {
    int curr = (int)getbits(b, 5);
    for (i = 0; i < alpha; i++) {
      unsigned ups = 0, downs = 0;
      for (;;) {
        unsigned bit;
        if (b->eof) FAIL("truncated in coding tables");
        if (curr < 1 || curr > 20) FAIL("code length %d out of range in table %u symbol %u", curr, t, i);
        bit = getbit(b);
        if (b->eof) FAIL("truncated in coding tables");
        if (!bit) break;
        bit = getbit(b);
        if (b->eof) FAIL("truncated in coding tables");
        if (!bit) { curr++; ups++; } else { curr--; downs++; }
      }
      if (ups && downs) zigzag = 1;
      len[t][i] = curr;
    }
    {
      uint64_t k = 0;
      for (i = 0; i < alpha; i++) k += 1ull << (20 - len[t][i]);
      kraft_state[t] = k == (1ull << 20) ? 0 : k < (1ull << 20) ? -1 : 1;
    }
  }
  if (zigzag) flags |= F_ZIGZAG;

  /* MTF / run-length / prefix decoding */
  {
    uint8_t mtf[256];
    unsigned eob = alpha - 1, g = 0, inthis = 0, tcur = 0;
    uint64_t run = 0, runbit = 1;
    int in_run = 0;
    /* canonical code of the current table */
    uint32_t first_code[22], first_idx[22], count[22];
    uint16_t perm[258];

    for (i = 0; i < n_inuse; i++) mtf[i] = seq2byte[i];
    for (;;) {
      unsigned sym, l;
      uint32_t code;
      if (inthis == 0) {
        if (g >= nsel) FAIL("block data runs past the last selector");
        tcur = sel[g++];
        used_table[tcur] = 1;
        inthis = 50;
        if (kraft_state[tcur] > 0) FAIL("group coded by an oversubscribed table");
        if (kraft_state[tcur] < 0) flags |= F_INCOMPLETE_USED;
        /* build canonical code: symbols ordered by (length, index) */
        {
          unsigned n = 0;
          uint32_t c = 0;
          for (l = 1; l <= 20; l++) {
            first_code[l] = c;
            first_idx[l] = n;
            count[l] = 0;
            for (i = 0; i < alpha; i++)
              if (len[tcur][i] == l) { perm[n++] = i; count[l]++; }
            c = (c + count[l]) << 1;
          }
        }
      }
      inthis--;
      code = 0;
      sym = 0xffff;
      for (l = 1; l <= 20; l++) {
        code = (code << 1) | getbit(b);
        if (b->eof) FAIL("truncated in block data");
        if (count[l] && code >= first_code[l] && code - first_code[l] < count[l]) {
          sym = perm[first_idx[l] + (code - first_code[l])];
          break;
        }
      }
      if (sym == 0xffff) FAIL("bit pattern is not a code of the (incomplete) table");
      symcount[tcur][sym]++;
      if (sym <= 1) {           /* RUNA / RUNB */
        if (!in_run) { run = 0; runbit = 1; in_run = 1; }
        if (runbit > (1ull << 40)) FAIL("run length overflow");
        run += runbit << sym;
        runbit <<= 1;
        if (run > 2 * 1024 * 1024ull + 900000) FAIL("run exceeds any block size");
        continue;
      }
      if (in_run) {
        if (nblock + run > limit) FAIL("block overflows declared size (run)");
        memset(ll + nblock, mtf[0], run);
        nblock += run;
        in_run = 0;
      }
      if (sym == eob) {
        groups_used = g;
        break;
      }
      {
        unsigned idx = sym - 1;
        uint8_t v;
        if (idx >= n_inuse) FAIL("MTF index out of range");
        v = mtf[idx];
        memmove(mtf + 1, mtf, idx);
        mtf[0] = v;
        if (nblock + 1 > limit) FAIL("block overflows declared size");
        ll[nblock++] = v;
      }
    }
  }
  if (nblock == 0) FAIL("empty block");
  if (origptr >= nblock) FAIL("primary index %u outside block of %u", origptr, nblock);
  for (t = 0; t < ngroups; t++)
    if (!used_table[t] && kraft_state[t] != 0) flags |= F_UNUSED_BAD;

  /* inverse BWT */
  {
    uint32_t cnt[256], sum = 0, p;
    memset(cnt, 0, sizeof cnt);
    for (i = 0; i < nblock; i++) cnt[ll[i]]++;
    for (i = 0; i < 256; i++) { uint32_t c = cnt[i]; cnt[i] = sum; sum += c; }
    for (i = 0; i < nblock; i++) tt[cnt[ll[i]]++] = i;
    p = tt[origptr];
    for (i = 0; i < nblock; i++) {
      plain[i] = ll[p];
      p = tt[p];
    }
  }
  if (randomised) {
    unsigned rtpos = 0;
    int rntogo = 0;
    flags |= F_RAND;
    for (i = 0; i < nblock; i++) {
      if (rntogo == 0) {
        rntogo = rnums[rtpos];
        rtpos = (rtpos + 1) & 511;
      }
      rntogo--;
      if (rntogo == 1) plain[i] ^= 1;
    }
  }
  /* undo the initial run-length coding */
  {
    size_t start = o->len;
    uint32_t k = 0;
    int missing = 0;
    crc = 0xffffffffu;
    while (k < nblock) {
      uint8_t c = plain[k];
      unsigned r = 1;
      while (r < 4 && k + r < nblock && plain[k + r] == c) r++;
      k += r;
      {
        uint8_t tmp[4] = { c, c, c, c };
        oput(o, tmp, r);
      }
      if (r == 4) {
        if (k < nblock) {
          unsigned cntb = plain[k++];
          uint8_t chunk[256];
          memset(chunk, c, cntb);
          oput(o, chunk, cntb);
        }
        else
          missing = 1;
      }
    }
    for (k = 0; k < o->len - start; k++)
      crc = (crc << 8) ^ crctab[(crc >> 24) ^ o->buf[start + k]];
    crc = ~crc;
    if (missing) flags |= F_MISSING_RUNLEN;
    if (insp) {
      fprintf(insp, "%s{\"bit_offset\":%llu,\"end_bit\":%llu,\"stored_crc\":%u,\"computed_crc\":%u,\"crc_bit\":%llu,"
              "\"randomised\":%u,\"primary_index\":%u,\"rle_len\":%u,\"decoded_len\":%llu,\"symbols_in_use\":%u,"
              "\"tables\":%u,\"selectors\":%u,\"selectors_used\":%u,\"missing_runlen\":%d,\"zigzag\":%u,\"table\":[",
              first_in_insp ? "" : ",", (unsigned long long)blk_start, (unsigned long long)b->pos,
              stored_crc, crc, (unsigned long long)blk_start + 48, randomised, origptr, nblock,
              (unsigned long long)(o->len - start), n_inuse, ngroups, nsel_read, groups_used, missing, zigzag);
      for (t = 0; t < ngroups; t++) {
        uint64_t cost = 0;
        unsigned maxl = 0;
        fprintf(insp, "%s{\"used\":%u,\"kraft\":%d,\"len\":[", t ? "," : "", used_table[t], kraft_state[t]);
        for (i = 0; i < alpha; i++) {
          fprintf(insp, "%s%u", i ? "," : "", len[t][i]);
          cost += symcount[t][i] * len[t][i];
          if (len[t][i] > maxl) maxl = len[t][i];
        }
        fprintf(insp, "],\"count\":[");
        for (i = 0; i < alpha; i++)
          fprintf(insp, "%s%llu", i ? "," : "", (unsigned long long)symcount[t][i]);
        fprintf(insp, "],\"cost\":%llu,\"maxlen\":%u}", (unsigned long long)cost, maxl);
      }
      fprintf(insp, "]}");
    }
    if (crc != stored_crc) {
      o->len = start;
      FAIL("block CRC mismatch");
    }
  }
  *blkcrc_out = stored_crc;
  nblocks++;
  return 0;
}

/* whole file; returns 0 valid / -1 invalid */
static int
decode_file(const uint8_t *data, size_t n, obuf_t *o)
{
  bits_t b;
  size_t pos = 0;
  int first_stream = 1;

  flags = 0;
  nstreams = nblocks = 0;
  reason[0] = 0;
  if (insp) fprintf(insp, "{\"streams\":[");
  for (;;) {
    int level;
    uint32_t combined = 0;
    int firstblk = 1;
    if (pos == n) {
      if (first_stream) FAIL("empty input");
      break;
    }
    if (n - pos < 4 || data[pos] != 'B' || data[pos + 1] != 'Z' || data[pos + 2] != 'h' ||
        data[pos + 3] < '1' || data[pos + 3] > '9') {
      if (first_stream) FAIL("not a bzip2 stream header");
      flags |= F_TRAILING;
      break;
    }
    level = data[pos + 3] - '0';
    b.p = data;
    b.nbits = (uint64_t)n * 8;
    b.pos = (uint64_t)(pos + 4) * 8;
    b.eof = 0;
    if (insp) fprintf(insp, "%s{\"byte_offset\":%zu,\"level\":%d,\"blocks\":[", first_stream ? "" : ",", pos, level);
    for (;;) {
      uint64_t magic = getbits(&b, 48);
      if (b.eof) FAIL("truncated at block magic");
      if (magic == 0x314159265359ull) {
        uint32_t bc;
        if (block(&b, level, o, &bc, firstblk) != 0)
          return -1;
        firstblk = 0;
        combined = ((combined << 1) | (combined >> 31)) ^ bc;
      }
      else if (magic == 0x177245385090ull) {
        uint64_t crcbit = b.pos;
        uint32_t sc = (uint32_t)getbits(&b, 32);
        if (b.eof) FAIL("truncated in stream CRC");
        if (insp) fprintf(insp, "],\"stream_crc_bit\":%llu,\"stored_crc\":%u,\"computed_crc\":%u,\"end_bit\":%llu}",
                          (unsigned long long)crcbit, sc, combined, (unsigned long long)b.pos);
        if (sc != combined) FAIL("stream CRC mismatch");
        break;
      }
      else
        FAIL("bad block magic");
    }
    nstreams++;
    pos = (size_t)((b.pos + 7) / 8);
    first_stream = 0;
  }
  return 0;
}

static uint8_t *
slurp(const char *path, size_t *n)
{
  FILE *f = fopen(path, "rb");
  uint8_t *buf;
  long sz;
  if (!f) {
    perror(path);
    exit(3);
  }
  fseek(f, 0, SEEK_END);
  sz = ftell(f);
  fseek(f, 0, SEEK_SET);
  buf = malloc(sz + 1);
  if (fread(buf, 1, sz, f) != (size_t)sz) {
    perror("read");
    exit(3);
  }
  fclose(f);
  *n = sz;
  return buf;
}

static void
verdict(FILE *out, int rc, obuf_t *o)
{
  if (rc == 0)
    fprintf(out, "ok %zu %016llx %x %u %u\n", o->len, (unsigned long long)fnv(o->buf, o->len), flags, nstreams, nblocks);
  else
    fprintf(out, "bad %zu %016llx %x %s\n", o->len, (unsigned long long)fnv(o->buf, o->len), flags, reason);
}

int
main(int argc, char **argv)
{
  uint8_t *data;
  size_t n;
  obuf_t o = { NULL, 0, 0 };
  int rc;

  if (argc < 3) {
    fprintf(stderr, "usage: bzref decode|inspect|batch FILE [OUT]\n");
    return 2;
  }
  crc_init();
  tt = malloc(900000 * sizeof *tt);
  ll = malloc(900000);
  plain = malloc(900000);
  data = slurp(argv[2], &n);
  if (!strcmp(argv[1], "decode")) {
    rc = decode_file(data, n, &o);
    verdict(stdout, rc, &o);
    if (argc > 3) {
      FILE *f = fopen(argv[3], "wb");
      if (f) {
        fwrite(o.buf, 1, o.len, f);
        fclose(f);
      }
    }
    return rc ? 1 : 0;
  }
  if (!strcmp(argv[1], "inspect")) {
    char *js = NULL;
    size_t jn = 0;
    insp = open_memstream(&js, &jn);
    rc = decode_file(data, n, &o);
    fclose(insp);
    if (rc == 0)
      printf("%s],\"valid\":true,\"flags\":%u,\"out_len\":%zu,\"out_fnv\":\"%016llx\"}\n", js, flags, o.len,
             (unsigned long long)fnv(o.buf, o.len));
    else
      printf("{\"valid\":false,\"flags\":%u,\"reason\":\"%s\"}\n", flags, reason);
    return rc ? 1 : 0;
  }
  if (!strcmp(argv[1], "inspect-batch")) {
    size_t off = 0;
    while (off + 4 <= n) {
      uint32_t len;
      char *js = NULL;
      size_t jn = 0;
      memcpy(&len, data + off, 4);
      off += 4;
      if (off + len > n)
        break;
      o.len = 0;
      insp = open_memstream(&js, &jn);
      rc = decode_file(data + off, len, &o);
      fclose(insp);
      if (rc == 0)
        printf("%s],\"valid\":true,\"flags\":%u,\"out_len\":%zu,\"out_fnv\":\"%016llx\"}\n", js, flags, o.len,
               (unsigned long long)fnv(o.buf, o.len));
      else
        printf("{\"valid\":false,\"flags\":%u,\"reason\":\"%s\"}\n", flags, reason);
      free(js);
      off += len;
    }
    return 0;
  }
  if (!strcmp(argv[1], "batch")) {
    size_t off = 0;
    while (off + 4 <= n) {
      uint32_t len;
      memcpy(&len, data + off, 4);
      off += 4;
      if (off + len > n)
        break;
      o.len = 0;
      rc = decode_file(data + off, len, &o);
      verdict(stdout, rc, &o);
      off += len;
    }
    return 0;
  }
  return 2;
}
