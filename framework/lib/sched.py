"""Cells of schedule/environment exploration with an outcome oracle."""
import os, json, time, hashlib, threading
from concurrent.futures import ThreadPoolExecutor
from . import lbzx, common, inputs, build

def _opts_for_replay(opts):
    return {k: v for k, v in opts.items() if k not in ('stdin_path', 'cpu_base')}

class Cell:
    def __init__(self, leg, variant, args, data, oracle, desc, opts=None, policies='all'):
        self.leg, self.variant, self.args, self.data = leg, variant, list(args), data
        self.oracle, self.desc, self.opts, self.policies = oracle, desc, dict(opts or {}), policies
        self.best = None          # last complete result
        self.best_bound = -1
        self.partial = None       # an incomplete result (deadline)
        self.prio = None          # result of the strict-priority family (run_priorities)

class Explorer:
    """Runs cells, several at a time, and accumulates evidence: per cell only
    the deepest *completed* bound is counted."""
    def __init__(self, chk, scratch=None, par=4, jobs=4):
        self.chk = chk
        self.dir = scratch or common.scratch(chk.pid)
        self.cells = []
        self.par, self.jobs = par, jobs
        self._lock = threading.Lock()
        self._slots = list(range(par))
        self._pslots = list(range(par * jobs))

    def file_for(self, data):
        return inputs.to_file(self.dir, data)

    def add(self, *a, **kw):
        c = Cell(*a, **kw)
        self.cells.append(c)
        return c

    def run_pass(self, bound, cells=None, extra_opts=None, time_limit=None):
        """Explore every (given) cell completely at `bound`.  Returns False if
        the deadline (or the time limit given for this pass) cut the pass short."""
        chk = self.chk
        cells = list(self.cells if cells is None else cells)
        ok = [True]
        t_end = time.time() + time_limit if time_limit else None
        class _L:
            def left(self_inner):
                return chk.left() if t_end is None else min(chk.left(), t_end - time.time())
        L = _L()
        def one(c):
            if L.left() < 4:
                with self._lock:
                    if ok[0]:
                        chk.cap('deadline: bound %d not run from cell %s [%s] on' % (bound, c.leg, c.desc))
                    ok[0] = False
                return
            with self._lock:
                slot = self._slots.pop()
            try:
                opts = dict(c.opts)
                opts.update(extra_opts or {})
                path = self.file_for(c.data) if c.data is not None else None
                r = lbzx.explore(c.variant, c.args, bound=bound, jobs=self.jobs, deadline=L.left() - 2,
                                 stdin_path=path, policy=c.policies, cpu_base=slot * self.jobs, **opts)
                self._judge(c, path, r, opts)
                with self._lock:
                    if r['complete']:
                        if bound >= c.best_bound:
                            c.best, c.best_bound = r, bound
                        if r.get('classes_capped'):
                            chk.cap('%s: outcome class table full in cell %s' % (c.leg, c.desc))
                        if r.get('states_capped'):
                            # only the count of distinct states is affected (it becomes a lower bound)
                            chk.cov['distinct_state_count_is_a_lower_bound'] = True
                    else:
                        c.partial = r
                        if ok[0]:
                            chk.cap('deadline inside bound %d of cell %s [%s] (%d executions done)' % (
                                bound, c.leg, c.desc, r['executions']))
                        ok[0] = False
            finally:
                with self._lock:
                    self._slots.append(slot)
        with ThreadPoolExecutor(max_workers=self.par) as ex:
            list(ex.map(one, cells))
        return ok[0]

    def run_priorities(self, kfun, cells=None, label='priorities', demote=0):
        """For every cell: one execution under each strict-priority scheduler
        (all K! priority orders of its K threads, K = kfun(cell) <= 7; a thread
        runs only while all threads of higher priority are blocked).  These
        are the schedules in which one thread is starved for as long as
        possible -- exactly what a small number of deviations from P0/P1/P2
        cannot produce.  Same oracle as the cell."""
        chk = self.chk
        cells = list(self.cells if cells is None else cells)
        ok = [True]
        def one(c):
            if chk.left() < 4:
                with self._lock:
                    if ok[0]:
                        chk.cap('deadline: %s not run from cell %s [%s] on' % (label, c.leg, c.desc))
                    ok[0] = False
                return
            with self._lock:
                slot = self._pslots.pop()
            try:
                K = max(1, min(7, int(kfun(c))))
                opts = dict(c.opts)
                opts['nprio'] = K
                if demote:
                    # one priority-change point anywhere in the run (the thread that would run next drops
                    # to the lowest priority): starves a thread from that moment on
                    opts['demote'] = demote
                path = self.file_for(c.data) if c.data is not None else None
                r = lbzx.explore(c.variant, c.args, bound=demote, jobs=(self.jobs if demote else 1), deadline=chk.left() - 2,
                                 stdin_path=path, policy='prio:%d' % K, cpu_base=slot, **opts)
                self._judge(c, path, r, opts)
                with self._lock:
                    if r['complete']:
                        if c.prio is None or r['executions'] >= c.prio['executions']:
                            c.prio = r
                    else:
                        if ok[0]:
                            chk.cap('deadline inside %s of cell %s [%s]' % (label, c.leg, c.desc))
                        ok[0] = False
            finally:
                with self._lock:
                    self._pslots.append(slot)
        with ThreadPoolExecutor(max_workers=self.par * self.jobs) as ex:
            list(ex.map(one, cells))
        return ok[0]

    def _judge(self, c, path, r, opts):
        chk = self.chk
        for k in r['classes']:
            why = None
            if k['kind'] in ('diverge', 'unmodelled', 'inconsistent', 'none'):
                common.harness_error('%s cell %s: %s' % (c.leg, c.desc, lbzx.cls_str(k)))
            ropts = {a: b for a, b in opts.items() if a != 'cpu_base'}
            if k['kind'] == 'horizon':
                # more scheduling points than the default horizon: only a livelock if ten times as many do not suffice either
                rr = lbzx.run(c.variant, c.args, dev=k['dev'], stdin_path=path, policy=k['policy'], timeout=600,
                              **dict(ropts, horizon=59000))
                k = dict(k)
                k.update({a: rr[a] for a in ('kind', 'code', 'stdout_hash', 'stdout_len', 'stderr_len', 'inv', 'sanitizer') if a in rr})
                k['note'] = rr.get('note', '')
                ropts = dict(ropts, horizon=59000)
                if rr['kind'] != 'horizon':
                    chk.cov['executions_longer_than_the_default_horizon'] = chk.cov.get('executions_longer_than_the_default_horizon', 0) + 1
                    why = c.oracle(k)
                    if why is None:
                        continue
                else:
                    why = 'no end within 59000 scheduling points (livelock)'
            if k['kind'] == 'timeout':
                rr = lbzx.run(c.variant, c.args, dev=k['dev'], stdin_path=path, policy=k['policy'],
                              timeout=600, **ropts)
                if rr['kind'] != 'timeout':
                    continue
                why = 'execution does not end (600 s holding the turn)'
            if why is None:
                why = c.oracle(k)
            if why is None:
                continue
            okc = 0
            for _ in range(2):
                rr = lbzx.run(c.variant, c.args, dev=k['dev'], stdin_path=path, policy=k['policy'], **ropts)
                if rr['kind'] == k['kind'] and rr['code'] == k['code'] and \
                   (rr['stdout_hash'] == k['stdout_hash'] or k['sanitizer']):
                    okc += 1
            if okc < 2:
                common.harness_error('%s cell %s: outcome %s did not reproduce on replay (%d/2)' % (
                    c.leg, c.desc, lbzx.cls_str(k), okc))
            key = '%s|%s|%s|%s(%s)|%s' % (c.leg, c.desc, ' '.join(c.args), k['kind'], k['code'], why[:60])
            devs = ','.join('%d.%d' % (i, a) for i, a in k['dev'])
            cmd = [x for x in r['cmd']]
            # turn the explore command line into a run command line
            runcmd = [cmd[0], 'run'] + cmd[2:]
            for flag in ('--bound', '--jobs', '--deadline', '--cpu-base', '--policy'):
                if flag in runcmd:
                    i = runcmd.index(flag)
                    del runcmd[i:i + 2]
            sep = runcmd.index('--')
            runcmd[sep:sep] = ['--policy', k['policy']] + (['--dev', devs] if devs else [])
            replay = {
                'engine': 'lbzx', 'variant': c.variant, 'args': c.args,
                'policy': k['policy'], 'dev': k['dev'], 'opts': _opts_for_replay(opts),
                'stdin_hex': c.data.hex() if c.data is not None and len(c.data) <= 4096 else None,
                'stdin_sha1': hashlib.sha1(c.data).hexdigest() if c.data is not None else None,
                'stdin_desc': c.desc, 'observed': lbzx.cls_str(k), 'why': why,
                'cmdline': ' '.join(runcmd),
            }
            with self._lock:
                chk.violation(key, '%s: %s [%s] %s' % (c.leg, why, c.desc, lbzx.cls_str(k)), replay)

    def finish_cov(self, rule, samples=6):
        chk = self.chk
        tot = dict(executions=0, states=0, transitions=0, cells=0, max_pre=0, max_cp=0, classes=0)
        by_bound = {}
        pr = dict(executions=0, states=0, transitions=0, cells=0, classes=0)
        for c in self.cells:
            if c.prio is not None:
                pr['executions'] += c.prio['executions']
                pr['states'] += c.prio['distinct_states']
                pr['transitions'] += c.prio['cp_total']
                pr['classes'] += len(c.prio['classes'])
                pr['cells'] += 1
                tot['max_pre'] = max(tot['max_pre'], c.prio['max_preemptions'])
                chk.leg(c.leg + '+strict-priority-schedulers', executions=c.prio['executions'], distinct_states=c.prio['distinct_states'],
                        choice_points=c.prio['cp_total'], cells=1)
        for c in self.cells:
            r = c.best
            if r is None:
                if c.partial is not None:
                    tot['executions'] += c.partial['executions']
                    chk.leg(c.leg, executions_in_uncompleted_bounds=c.partial['executions'])
                continue
            tot['executions'] += r['executions']
            tot['states'] += r['distinct_states']
            tot['transitions'] += r['cp_total']
            tot['cells'] += 1
            tot['classes'] += len(r['classes'])
            tot['max_pre'] = max(tot['max_pre'], r['max_preemptions'])
            tot['max_cp'] = max(tot['max_cp'], r['max_cp'])
            by_bound[c.best_bound] = by_bound.get(c.best_bound, 0) + 1
            chk.leg(c.leg, executions=r['executions'], distinct_states=r['distinct_states'],
                    choice_points=r['cp_total'], cells=1, outcome_classes=len(r['classes']))
        step = max(1, len(self.cells) // samples)
        for c in self.cells[::step][:samples]:
            if c.best is not None:
                chk.sample({'leg': c.leg, 'cell': c.desc, 'args': c.args, 'bound_completed': c.best_bound,
                            'executions': c.best['executions'], 'distinct_states': c.best['distinct_states'],
                            'exec_by_deviations': c.best['exec_by_depth'],
                            'outcome_classes': [lbzx.cls_str(k)[:220] for k in c.best['classes'][:3]]})
        cov = chk.cov
        if pr['cells']:
            tot['executions'] += pr['executions']
            tot['states'] += pr['states']
            tot['transitions'] += pr['transitions']
            tot['classes'] += pr['classes']
            cov['strict_priority_scheduler_executions'] = cov.get('strict_priority_scheduler_executions', 0) + pr['executions']
            cov['cells_run_under_all_priority_orders'] = cov.get('cells_run_under_all_priority_orders', 0) + pr['cells']
        cov['evaluations'] = cov.get('evaluations', 0) + tot['executions']
        cov['distinct_nontrivial'] = cov.get('distinct_nontrivial', 0) + tot['states']
        cov['states'] = cov.get('states', 0) + tot['states']
        cov['transitions'] = cov.get('transitions', 0) + tot['transitions']
        cov['traces_validated_against_impl'] = cov.get('traces_validated_against_impl', 0) + tot['executions']
        cov['rule'] = (cov.get('rule', '') + ' ' + rule).strip()
        cov['cells'] = len(self.cells)
        cov['cells_by_completed_bound'] = {str(k): v for k, v in sorted(by_bound.items())}
        cov['distinct_outcome_classes_summed_over_cells'] = tot['classes']
        cov['max_preemptions_in_one_execution'] = tot['max_pre']
        cov['max_choice_points_in_one_execution'] = tot['max_cp']
        return tot

def perm_rank(perm):
    """index of a permutation of 0..K-1 in the order used by vsched.c:prio_decode"""
    pool = sorted(perm)
    r = 0
    import math
    for i, x in enumerate(perm):
        q = pool.index(x)
        r += q * math.factorial(len(perm) - 1 - i)
        pool.pop(q)
    return r

def priority_orders(K, workers, last=(0,)):
    """Policy names of the strict-priority schedulers over threads 0..K-1 up to symmetry: the worker
    threads are interchangeable (kept in increasing order) and the threads in `last' (main, which sleeps
    in sigsuspend) stay at the lowest priority."""
    import itertools
    rest = [t for t in range(K) if t not in last]
    out = []
    for perm in itertools.permutations(rest):
        w = [t for t in perm if t in workers]
        if w != sorted(w):
            continue
        out.append('P%d' % (3 + perm_rank(list(perm) + list(last))))
    return out

INV_NAMES = {1: 'work_units above the worker count', 2: 'in_slots above the total', 4: 'out_slots above the total (or taken below zero)',
             8: 'live heap above the bound', 16: 'slot totals above the documented per-worker constants', 256: 'heap block overrun (write behind an allocation)',
             512: 'data race', 1024: 'heap blocks never released at successful exit', 2048: 'file descriptors left open at successful exit'}

def inv_text(inv, note=''):
    names = [n for b, n in INV_NAMES.items() if inv & b]
    return '%s (flags %d)%s' % ('; '.join(names) or 'invariant', inv, (': ' + note) if note else '')

def expect_exact(status, out_bytes, stderr_empty=True, allow_inv=0):
    """Oracle: exactly this exit status and these stdout bytes.
    allow_inv: bit mask of counter-invariant flags that do not apply (copy mode
    uses out_slots as a plain counter of buffers in flight which transiently
    wraps below zero; only the compression/decompression schedulers treat it
    as a resource)."""
    h = common.fnv64(out_bytes) if out_bytes is not None else None
    n = len(out_bytes) if out_bytes is not None else None
    def oracle(c):
        if c['sanitizer']:
            return 'sanitizer report'
        if c['kind'] != 'exit':
            return 'ended by %s(%s) instead of exit status %d' % (c['kind'], c['code'], status)
        if c['code'] != status:
            return 'exit status %d instead of %d' % (c['code'], status)
        if c['inv'] & ~int(allow_inv) & ~(64 | 32 | 128):
            return 'invariant broken: ' + inv_text(c['inv'] & ~int(allow_inv) & ~(64 | 32 | 128), c.get('note', ''))
        if h is not None and (c['stdout_hash'] != h or c['stdout_len'] != n):
            return 'output differs from the expected %d bytes' % n
        if stderr_empty and c['stderr_len']:
            return 'diagnostic on stderr in a successful run'
        return None
    return oracle
