"""Reference for C20: cost of an optimal length-limited complete prefix code,
by the textbook package-merge ('coin collector') formulation on plain sorted
lists.  Independent of lbzip2's boundary package-merge; validated in the check
against exhaustive search on small alphabets."""
import itertools

def optimal_cost(freqs, L):
    """min sum f_i*l_i over l with 1<=l_i<=L and sum 2^-l_i == 1 (n >= 2)."""
    n = len(freqs)
    if n < 2 or (1 << L) < n:
        return None
    leaves = sorted(freqs)
    packages = []
    for _ in range(L):
        merged = sorted(leaves + packages)
        # the last list is not packaged again
        cur = merged
        packages = [cur[i] + cur[i + 1] for i in range(0, len(cur) - 1, 2)]
    return sum(cur[:2 * n - 2])

def brute_cost(freqs, L):
    n = len(freqs)
    best = None
    fs = sorted(freqs, reverse=True)
    for v in itertools.combinations_with_replacement(range(1, L + 1), n):
        if sum(1 << (L - l) for l in v) != 1 << L:
            continue
        c = sum(f * l for f, l in zip(fs, v))      # v non-decreasing, fs non-increasing
        if best is None or c < best:
            best = c
    return best

def selftest(maxn=5, maxf=4, Ls=(2, 3, 4)):
    n_checked = 0
    for n in range(2, maxn + 1):
        for fv in itertools.combinations_with_replacement(range(0, maxf + 1), n):
            for L in Ls:
                if (1 << L) < n:
                    continue
                a, b = optimal_cost(list(fv), L), brute_cost(list(fv), L)
                n_checked += 1
                if a != b:
                    return 'refhuff.optimal_cost%r L=%d = %r, exhaustive search = %r' % (fv, L, a, b)
    return n_checked
