"""Build cache: everything is rebuilt from /repo's current working tree.

Objects are cached under /verif/build/cache/<key>/ where <key> hashes the
contents of every file in /repo/src, the flags and the framework sources that
go into the artefact, so an edit of /repo/src always gives a new build and an
unchanged tree costs nothing on the second call.
"""
import hashlib, os, subprocess, sys, shutil, glob, time, fcntl

VERIF = os.path.dirname(os.path.dirname(os.path.dirname(os.path.abspath(__file__))))
REPO = os.environ.get('VERIF_REPO', '/repo')
SRC = os.path.join(REPO, 'src')
FW = os.path.join(VERIF, 'framework')
CACHE = os.path.join(VERIF, 'build', 'cache')
GUARD = 'KJN_LBZIP2_VERIF'

DEFS = ['-D_XOPEN_SOURCE=700', '-D_FILE_OFFSET_BITS=64', '-DPACKAGE_NAME="lbzip2"',
        '-DPACKAGE_VERSION="devel"', '-D' + GUARD, '-U_FORTIFY_SOURCE']

RENAMES = ['-Dmain=lbzip2_main', '-Dpthread_create=vs_create', '-Dpthread_join=vs_join',
           '-Dpthread_mutex_lock=vs_mutex_lock', '-Dpthread_mutex_unlock=vs_mutex_unlock',
           '-Dpthread_cond_wait=vs_cond_wait', '-Dpthread_cond_signal=vs_cond_signal',
           '-Dpthread_cond_broadcast=vs_cond_broadcast', '-Dpthread_exit=vs_thread_exit',
           '-Dread=vs_read', '-Dwrite=vs_write', '-Dkill=vs_kill', '-Dsigsuspend=vs_sigsuspend',
           '-Dsigaction=vs_sigaction', '-Dpthread_sigmask=vs_sigmask', '-Dsigprocmask=vs_procmask',
           '-Dsigpending=vs_sigpending', '-D_exit=vs_exit', '-Disatty=vs_isatty',
           '-Dflockfile=vs_flockfile', '-Dfunlockfile=vs_funlockfile',
           '-Dfflush=vs_fflush', '-Dmalloc=vs_malloc', '-Dfree=vs_free', '-Dclose=vs_close']

# calls that glibc redirects by asm label (open -> open64 ...) cannot be renamed by the
# preprocessor; their undefined symbols are renamed in the compiled objects instead
REDEFINE = ['open64=vs_open', 'lstat64=vs_lstat', 'unlink=vs_unlink',
            'fchown=vs_fchown', 'fchmod=vs_fchmod', 'futimens=vs_futimens']

VARIANTS = {
    # name: (compiler, cflags for lbzip2 sources, ldflags)
    'fast': ('gcc', ['-O2', '-g'], []),
    'asan': ('gcc', ['-O1', '-g', '-fsanitize=address,undefined', '-fno-sanitize-recover=undefined',
                     '-fno-omit-frame-pointer'], ['-fsanitize=address,undefined']),
    'tsan': ('clang', ['-O1', '-g', '-fsanitize=thread'], ['-fsanitize=thread']),
    # clang's ThreadSanitizer instrumentation, but the callbacks are the happens-before detector of vsched.c (no tsan runtime)
    'hbrace': ('clang', ['-O1', '-g', '-fsanitize=thread'], []),
    'msan': ('clang', ['-O1', '-g', '-fsanitize=memory', '-fno-omit-frame-pointer'], ['-fsanitize=memory']),
    'stock': ('gcc', ['-O2', '-g'], []),
}

class BuildError(Exception):
    pass

def src_files():
    return sorted(glob.glob(os.path.join(SRC, '*.c')))

def _hash_files(paths, extra=()):
    h = hashlib.sha256()
    for p in paths:
        h.update(p.encode()); h.update(b'\0')
        with open(p, 'rb') as f:
            h.update(f.read())
        h.update(b'\0')
    for e in extra:
        h.update(repr(e).encode())
    return h.hexdigest()[:20]

def repo_key():
    hs = sorted(glob.glob(os.path.join(SRC, '*.[ch]')))
    return _hash_files(hs)

def _run(cmd, cwd=None):
    p = subprocess.run(cmd, cwd=cwd, stdout=subprocess.PIPE, stderr=subprocess.STDOUT, text=True)
    if p.returncode != 0:
        raise BuildError('command failed: %s\n%s' % (' '.join(cmd), p.stdout[-4000:]))
    return p.stdout

def _par(cmds):
    procs = [(c, subprocess.Popen(c, stdout=subprocess.PIPE, stderr=subprocess.STDOUT, text=True)) for c in cmds]
    for c, p in procs:
        out = p.communicate()[0]
        if p.returncode != 0:
            raise BuildError('command failed: %s\n%s' % (' '.join(c), out[-4000:]))

def _prune(keep=10):
    try:
        ds = [os.path.join(CACHE, d) for d in os.listdir(CACHE)]
        ds = [d for d in ds if os.path.isdir(d)]
        ds.sort(key=lambda d: os.path.getmtime(d))
        for d in ds[:-keep]:
            shutil.rmtree(d, ignore_errors=True)
    except OSError:
        pass

class _Lock:
    def __init__(self, path):
        self.path = path
    def __enter__(self):
        os.makedirs(os.path.dirname(self.path), exist_ok=True)
        self.f = open(self.path, 'w')
        fcntl.flock(self.f, fcntl.LOCK_EX)
    def __exit__(self, *a):
        fcntl.flock(self.f, fcntl.LOCK_UN)
        self.f.close()

def _dir(kind, key):
    d = os.path.join(CACHE, '%s-%s' % (kind, key))
    return d

def objects(variant, renamed):
    """Compile every /repo/src/*.c; returns list of object paths.
    renamed=True: objects for lbzx (library calls routed to vsched, writable
    data in lbz_data/lbz_bss)."""
    cc, cflags, _ = VARIANTS[variant]
    flags = ['-std=gnu99', '-fno-pie'] + cflags + DEFS + (RENAMES if renamed else []) + ['-I' + SRC]
    srcs = src_files()
    key = _hash_files(sorted(glob.glob(os.path.join(SRC, '*.[ch]'))), [cc, flags, renamed, REDEFINE if renamed else None])
    d = _dir('obj-%s-%s' % (variant, 'r' if renamed else 'p'), key)
    with _Lock(d + '.lock'):
        objs = [os.path.join(d, os.path.basename(s)[:-2] + '.o') for s in srcs]
        if os.path.exists(os.path.join(d, 'ok')):
            os.utime(d)
            return objs
        os.makedirs(d, exist_ok=True)
        _par([[cc] + flags + ['-c', s, '-o', o] for s, o in zip(srcs, objs)])
        if renamed:
            red = []
            for r in REDEFINE:
                red += ['--redefine-sym', r]
            _par([['objcopy', '--rename-section', '.data=lbz_data', '--rename-section', '.bss=lbz_bss'] + red + [o]
                  for o in objs])
        open(os.path.join(d, 'ok'), 'w').close()
        _prune(24)
        return objs

def lbzx(variant='fast'):
    """The lbzip2-under-vsched binary for this tree."""
    cc, cflags, ldflags = VARIANTS[variant]
    objs = objects(variant, True)
    fw = [os.path.join(FW, 'lbzx', f) for f in ('vsched.c', 'explore.c', 'vsched.h')]
    key = _hash_files(fw + objs, [variant])
    d = _dir('lbzx-' + variant, key)
    exe = os.path.join(d, 'lbzx')
    with _Lock(d + '.lock'):
        if os.path.exists(exe):
            os.utime(d)
            return exe
        os.makedirs(d, exist_ok=True)
        # the scheduler is never instrumented (see vsched.c)
        gcc = 'gcc' if cc == 'gcc' else 'clang'
        for f in ('vsched', 'explore'):
            _run([gcc, '-O2', '-g', '-fno-pie', '-Wall'] + (['-DVS_TSAN'] if variant == 'tsan' else []) + (['-DVS_HB'] if variant == 'hbrace' else []) + (['-DVS_ASAN'] if variant == 'asan' else []) +
                 ['-I' + os.path.join(FW, 'lbzx'), '-c',
                  os.path.join(FW, 'lbzx', f + '.c'), '-o', os.path.join(d, f + '.o')])
        _run([cc, '-no-pie', '-o', exe + '.tmp', os.path.join(d, 'vsched.o'), os.path.join(d, 'explore.o')]
             + objs + ldflags + ['-lpthread'])
        os.rename(exe + '.tmp', exe)
        return exe

def stock():
    """The real lbzip2 binary of this tree: stock flags, assertions on, guard on
    (the guard only adds environment overrides that are inert unless set)."""
    cc, cflags, ldflags = VARIANTS['stock']
    objs = objects('stock', False)
    key = _hash_files(objs, ['stock'])
    d = _dir('stock', key)
    exe = os.path.join(d, 'lbzip2')
    with _Lock(d + '.lock'):
        if os.path.exists(exe):
            os.utime(d)
            return exe
        os.makedirs(d, exist_ok=True)
        _run([cc, '-no-pie', '-o', exe + '.tmp'] + objs + ['-lpthread'])
        os.rename(exe + '.tmp', exe)
        return exe

def harness(name, sources, variant='fast', objs_from_repo=True, extra_cflags=(), extra_ld=(), includes_repo_c=(), repo_objs=None):
    """Build a codec harness: framework C file(s) + (optionally) repo objects.
    includes_repo_c: repo .c files that the harness #includes itself (their
    objects are then left out of the link)."""
    cc, cflags, ldflags = VARIANTS[variant]
    srcs = [os.path.join(FW, s) for s in sources]
    robjs = []
    if objs_from_repo:
        robjs = [o for o in objects(variant, False)
                 if os.path.basename(o)[:-2] + '.c' not in includes_repo_c
                 and os.path.basename(o) != 'main.o'
                 and (repo_objs is None or os.path.basename(o)[:-2] in repo_objs)]
    key = _hash_files(srcs + robjs + sorted(glob.glob(os.path.join(SRC, '*.[ch]'))),
                      [variant, list(extra_cflags), list(extra_ld), list(includes_repo_c)])
    d = _dir('h-%s-%s' % (name, variant), key)
    exe = os.path.join(d, name)
    with _Lock(d + '.lock'):
        if os.path.exists(exe):
            os.utime(d)
            return exe
        os.makedirs(d, exist_ok=True)
        flags = ['-std=gnu99', '-fno-pie'] + cflags + DEFS + ['-I' + SRC, '-I' + os.path.join(FW, 'codecx')] + list(extra_cflags)
        _run([cc] + flags + ['-no-pie', '-o', exe + '.tmp'] + srcs + robjs + ldflags + ['-lpthread'] + list(extra_ld))
        os.rename(exe + '.tmp', exe)
        return exe

def tool(name, sources, extra=()):
    """Build a framework-only tool (no repo code), cached by its sources."""
    srcs = [os.path.join(FW, s) for s in sources]
    key = _hash_files(srcs, list(extra))
    d = _dir('tool-' + name, key)
    exe = os.path.join(d, name)
    with _Lock(d + '.lock'):
        if os.path.exists(exe):
            os.utime(d)
            return exe
        os.makedirs(d, exist_ok=True)
        _run(['gcc', '-O2', '-g', '-Wall', '-o', exe + '.tmp'] + srcs + list(extra))
        os.rename(exe + '.tmp', exe)
        return exe

if __name__ == '__main__':
    for v in sys.argv[1:] or ['fast']:
        t = time.time()
        print(v, lbzx(v) if v != 'stock' else stock(), '%.1fs' % (time.time() - t))
