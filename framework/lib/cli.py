"""Whole-program runs with FILE operands / invocation names / environment:
each case gets its own directory (prepared here), runs in-process through
lbzx batch (real main.c, real system calls), and the directory is inspected
afterwards."""
import os, stat, shutil, hashlib
from . import lbzx, common

def _fnv(b):
    return common.fnv64(b)

class Fx:
    """file fixture: ('f', bytes, mode, mtime_ns) | ('l', target) | ('d',) | ('h', other_name)"""

def prepare(root, idx, files):
    d = os.path.join(root, 'c%d' % idx)
    os.mkdir(d)
    for name, spec in files.items():
        p = os.path.join(d, name)
        kind = spec[0]
        if kind == 'f':
            with open(p, 'wb') as f:
                f.write(spec[1])
            os.chmod(p, spec[2] if len(spec) > 2 else 0o644)
            mt = spec[3] if len(spec) > 3 else 946684900_987654321
            at = spec[4] if len(spec) > 4 else 946684800_123456789
            os.utime(p, ns=(at, mt))
        elif kind == 'l':
            os.symlink(spec[1], p)
        elif kind == 'd':
            os.mkdir(p)
        elif kind == 'h':
            os.link(os.path.join(d, spec[1]), p)
    return d

def snapshot(d):
    out = {}
    for name in sorted(os.listdir(d)):
        p = os.path.join(d, name)
        st = os.lstat(p)
        if stat.S_ISREG(st.st_mode):
            with open(p, 'rb') as f:
                b = f.read()
            out[name] = {'type': 'f', 'size': len(b), 'hash': _fnv(b), 'mode': st.st_mode & 0o7777, 'nlink': st.st_nlink,
                         'mtime_ns': st.st_mtime_ns, 'atime_ns': st.st_atime_ns, 'data': b if len(b) <= 4096 else None}
        elif stat.S_ISLNK(st.st_mode):
            out[name] = {'type': 'l', 'target': os.readlink(p)}
        elif stat.S_ISDIR(st.st_mode):
            out[name] = {'type': 'd'}
        else:
            out[name] = {'type': '?'}
    return out

def run_cases(cases, variant='fast', jobs=None, save_stdout=True):
    """cases: dicts with argv0, args, env, stdin (bytes|None), files (dict|None).
    Returns list of (result, fs_after, stdout_bytes)."""
    root = common.scratch('cli')
    od = os.path.join(root, 'out')
    os.mkdir(od)
    packed = []
    dirs = []
    for i, c in enumerate(cases):
        d = prepare(root, i, c['files']) if c.get('files') is not None else ''
        dirs.append(d)
        packed.append({'argv': [c.get('argv0', 'lbzip2')] + list(c['args']), 'env': c.get('env') or {}, 'stdin': c.get('stdin'),
                       'chdir': d, 'save': save_stdout})
    res = lbzx.batch(variant, packed, jobs=jobs, outdir=od, timeout=120)
    out = []
    for i, (r, d) in enumerate(zip(res, dirs)):
        fs = snapshot(d) if d else None
        p = os.path.join(od, '%d.out' % i)
        so = open(p, 'rb').read() if os.path.exists(p) else b''
        out.append((r, fs, so))
    shutil.rmtree(root, ignore_errors=True)
    return out

def observable(r, fs, so, strip_times=False):
    """What a user can see: status, stdout, stderr, directory."""
    f = None
    if fs is not None:
        f = tuple((n, e['type'], e.get('hash'), e.get('mode'), e.get('mtime_ns') if e.get('mtime_ns', 0) < 1_500_000_000_000_000_000 else 'now')
                  for n, e in sorted(fs.items()))
    return (r['kind'], r['code'], r['stdout_hash'], r['stdout_len'], r['stderr_hash'], f)
