"""Python side of engine E6 (function-level harnesses, framework/codecx)."""
import os, struct, subprocess, time
from . import build, common

def exe(variant='fast'):
    return build.harness('codecx', ['codecx/codecx.c'], variant, includes_repo_c=('encode.c',),
                         repo_objs=['decode', 'parse', 'divbwt', 'crctab'],
                         extra_cflags=['-Wall', '-Wno-unused-function'])

ENV = dict(os.environ)
ENV.update({'ASAN_OPTIONS': 'detect_leaks=0:exitcode=97', 'UBSAN_OPTIONS': 'exitcode=98:print_stacktrace=1',
            'MSAN_OPTIONS': 'exitcode=95'})

def run_leg(leg, tier, variant='fast', extra=(), timeout=3000):
    """-> (stats dict, [violation texts], raw)  or None when the leg cannot be
    built against this tree (static interface changed): 'unbound'."""
    try:
        x = exe(variant)
    except build.BuildError as e:
        return None, [], str(e)[-1500:]
    t = time.time()
    try:
        p = subprocess.run([x, leg, tier] + list(extra), stdout=subprocess.PIPE, stderr=subprocess.STDOUT, env=ENV, timeout=timeout)
    except subprocess.TimeoutExpired:
        return {'timeout': True, 'wall_s': round(time.time() - t, 2)}, [], ''
    out = p.stdout.decode(errors='replace')
    stats, viols = {}, []
    for line in out.split('\n'):
        if line.startswith('VIOL '):
            viols.append(line[5:])
        elif line.startswith('STAT '):
            for kv in line[5:].split():
                k, _, v = kv.partition('=')
                stats[k] = int(v) if v.isdigit() else v
    stats['wall_s'] = round(time.time() - t, 2)
    stats['exit'] = p.returncode
    if p.returncode != 0 or 'leg' not in stats:
        # crash / sanitizer report / assertion inside the harness run
        tail = out[-1800:]
        viols.append('harness run ended abnormally (exit %d): %s' % (p.returncode, tail))
    return stats, viols, out

def _apply(chk, pid_leg, tier, leg, variant='fast', extra=(), count_keys=(), fp=None):
    stats, viols, raw = run_leg(leg, tier, variant, extra)
    name = 'function-level' + ('' if variant == 'fast' else '-' + variant)
    if stats is None:
        chk.leg(name, status='unbound: harness does not compile against this tree', detail=raw[-300:])
        return None
    chk.leg(name, **{k: v for k, v in stats.items() if k != 'leg'})
    for v in viols[:8]:
        key = '%s|fn|%s|%s' % (chk.pid, leg, (fp(v) if fp else v.split(':')[0])[:60])
        chk.violation(key, '%s function-level (%s build): %s' % (chk.pid, variant, v),
                      {'engine': 'codecx', 'cmdline': '%s %s %s %s' % (exe(variant), leg, tier, ' '.join(extra)), 'variant': variant})
    return stats

def c04(chk, tier):
    st = _apply(chk, 'C04', tier, 'c04')
    if st:
        chk.cov['evaluations'] += st.get('sequences', 0)
        chk.cov['distinct_nontrivial'] += st.get('distinct_states', 0)
        chk.cov['states'] = st.get('distinct_states', 0)
        chk.cov['transitions'] = st.get('collect_calls', 0)
        chk.cov['traces_validated_against_impl'] = st.get('sequences', 0)
        chk.cov['rule'] += ('leg (a): collect() operation sequences: every string over {a,b} up to length 10 (13), over {a,b,c} up to 6 (8), '
                            'up to three runs with lengths around 4/259, x capacities 1..40 and 255..270, 515..525 x every cut into <= 3 calls; '
                            'after every call consumed count, full flag, block bytes and CRC == reference; states = (rle_state, next byte continues run, room).')

def c20(chk, tier):
    st = _apply(chk, 'C20', tier, 'c20')
    if st:
        chk.cov['evaluations'] += st.get('vectors', 0)
        chk.cov['distinct_nontrivial'] += st.get('vectors', 0)
        chk.cov['rule'] += (' leg (a): assign_codes() on all frequency vectors of alphabet 3..5 (6) with entries 0..4 (6), sampled-by-stride vectors of '
                            'alphabet 7..8 (10), Fibonacci-like families of size 18..34 (the only ones that hit the 20-bit limit), constant/geometric/'
                            'two-level vectors up to 258; lengths in 1..20, Kraft sum 1, cost == optimum for its own longest code.')

def c01(chk, tier):
    st = _apply(chk, 'C01', tier, 'c01')
    if st:
        chk.cov['evaluations'] += st.get('inputs', 0)
        chk.cov['distinct_nontrivial'] += st.get('inputs', 0)
        chk.cov['rule'] = ('(a) codec chain collect->encode->transmit->retrieve->decode->emit on every string over {a,b} up to 10 (13) x capacities, '
                           '{a,b,c} up to 6 (8), runs around 4/259, every alphabet size; ') + chk.cov['rule']

def bwt(chk, tier):
    stats, viols, raw = run_leg('bwt', tier)
    if stats is None:
        chk.leg('function-level-bwt', status='unbound: harness does not compile against this tree', detail=raw[-300:])
        return
    chk.leg('function-level-bwt', **{k: v for k, v in stats.items() if k != 'leg'})
    for v in viols[:8]:
        chk.violation('C01|fn|bwt|%s' % v.split(' input ')[0][:60], 'C01 function-level (divbwt vs sorted cyclic rotations): ' + v,
                      {'engine': 'codecx', 'cmdline': '%s bwt %s' % (exe('fast'), tier), 'variant': 'fast'})
    chk.cov['evaluations'] += stats.get('strings', 0)
    chk.cov['distinct_nontrivial'] += stats.get('strings', 0)
    chk.cov['rule'] = ('(a2) divbwt() == last column of the sorted cyclic rotations (reference: prefix doubling) and origin row == input, on every string '
                       'over {a,b} up to 16 (20), {a,b,c} up to 10 (12), powers of every word over {a,b} of length <= 7 (9) cut at 40..2300 (12000) with '
                       'no / one changed byte, every prefix up to 1500 (6000) of the Fibonacci, Thue-Morse, paper-folding and period-doubling words, '
                       '256-symbol arithmetic sequences, two/three-run blocks; ') + chk.cov['rule']

def write_streams(path, streams):
    with open(path, 'wb') as f:
        for s in streams:
            f.write(struct.pack('<I', len(s)))
            f.write(s)

def c09(chk, tier, streams, variant='fast'):
    d = common.scratch('c09')
    p = os.path.join(d, 'streams.bin')
    write_streams(p, streams)
    return _apply(chk, 'C09', tier, 'c09', variant=variant, extra=[p])

def c14(chk, tier, variant='fast'):
    return _apply(chk, 'C14', tier, 'c14', variant=variant)
