"""MANIFEST.setup_cmd: pre-build what every check needs (all of it is also
built on demand; this only warms the cache)."""
import sys, time
from . import build

def main():
    t = time.time()
    try:
        for v in ('fast', 'asan', 'tsan'):
            print('lbzx', v, build.lbzx(v))
        print('stock', build.stock())
        try:
            from . import tools
            tools.build_all()
        except ImportError:
            pass
    except build.BuildError as e:
        print('setup: build failed\n' + str(e))
        return 1
    print('setup done in %.1fs' % (time.time() - t))
    return 0
