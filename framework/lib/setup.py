"""MANIFEST.setup_cmd: pre-build what every check needs (all of it is also
built on demand; this only warms the cache)."""
import sys, time
from . import build

def prune_cache(keep_days=2, keep_max=120):
    """The build/result cache is keyed by source hashes, so entries of trees that no longer exist pile up
    (every seeded tree leaves a full set): drop what has not been used for two days, and beyond the newest 120."""
    import os, shutil
    try:
        ents = [os.path.join(build.CACHE, d) for d in os.listdir(build.CACHE)]
    except OSError:
        return
    ents = [e for e in ents if not e.endswith('.lock')]
    ents.sort(key=lambda e: os.path.getmtime(e), reverse=True)
    now = time.time()
    for i, e in enumerate(ents):
        if i >= keep_max or now - os.path.getmtime(e) > keep_days * 86400:
            shutil.rmtree(e, ignore_errors=True) if os.path.isdir(e) else os.unlink(e)
            try:
                os.unlink(e + '.lock')
            except OSError:
                pass

def main():
    t = time.time()
    prune_cache()
    try:
        for v in ('fast', 'asan', 'tsan', 'hbrace'):
            print('lbzx', v, build.lbzx(v))
        print('stock', build.stock())
        try:
            from . import tools
            tools.build_all()
        except ImportError:
            pass
    except build.BuildError as e:
        print('setup: build failed\n' + str(e))
        return 1
    print('setup done in %.1fs' % (time.time() - t))
    return 0
