"""Shared enumeration of C05/C06/C07 (and the sanitizer pass of C08):
bounded-exhaustive valid streams from bzgen, all their one-deviation mutants,
each decided by lbzip2 (whole program under vsched, canonical schedule, two
configurations) and by the reference decoder."""
import itertools, json, os, hashlib, time
from . import bzgen, bzref, lbzx, common, build, inputs
from .bzgen import Block

def kraft_complete_vectors(alpha, maxlen):
    out = []
    for v in itertools.product(range(1, maxlen + 1), repeat=alpha):
        if sum(1 << (maxlen - l) for l in v) == 1 << maxlen:
            out.append(list(v))
    return out

def base_streams(tier):
    """Yield (name, bytes, fields, mutate) -- mutate in {'all', 'fields', 'none'}"""
    quick = tier == 'quick'
    out = []
    def add(name, streams, trailing=b'', mutate='all'):
        data, fields = bzgen.build(streams, trailing)
        out.append((name, data, fields, mutate))
    def one(name, blk, level=1, **kw):
        add(name, [([blk], level)], **kw)

    # A: all strings over {a,b} up to a length, one block each
    maxlen = 5 if quick else 8
    for n in range(1, maxlen + 1):
        for t in itertools.product(b'ab', repeat=n):
            s = bytes(t)
            if quick and n >= 4 and s[0] != 97:
                continue        # complement symmetry: keep half in quick
            one('A:%s' % s.decode(), Block(s), mutate='all' if n <= (4 if quick else 6) else 'fields')
    # B: alphabet sizes (sliding list rows), runs, block capacity
    for k in (1, 2, 15, 16, 17, 32, 33, 255, 256):
        pl = bytes(range(k)) + bytes(reversed(range(k)))
        one('B:alpha%d' % k, Block(pl), mutate='fields')
    for n in (1, 2, 3, 4, 50, 51, 255, 256, 1000):
        one('B:zeros%d' % n, Block(L=bytes(n), origptr=0, plain_for_crc=_unrle(bytes(n))), mutate='fields' if n > 4 else 'all')
    for lvl, n in ((1, 100000), (1, 100001), (2, 100001), (9, 900000)) if not quick else ((1, 100000), (1, 100001)):
        Lz = bytes(n)
        one('B:cap L%d n%d' % (lvl, n), Block(L=Lz, origptr=n - 1, plain_for_crc=_unrle(Lz)), level=lvl, mutate='none')
    # a block of the largest size whose BWT output never repeats a byte: 900000 MTF symbols plus the end-of-block
    # symbol = 18001 groups of 50, the most a conforming stream can need (bzip2 itself stops at 899981 bytes)
    for n, lvl in ((900000, 9), (899950, 9), (100000, 1)) if not quick else ((900000, 9),):
        Lalt = b'ab' * (n // 2)
        one('B:alternating n%d (%d groups)' % (n, (n + 1 + 49) // 50), Block(L=Lalt, origptr=0, plain_for_crc=_unrle(_ibwt(Lalt, 0))), level=lvl, mutate='none')
    # C: primary index
    for op in (0, 4, 5, 6):
        b = Block(b'abcab')
        b.origptr = op if op < 5 else op
        # the CRC belongs to the rotation that the index selects
        if op < 5:
            rot = _ibwt(b.L, op)
            b.crc_value = bzgen.crc(_unrle(rot))
        one('C:origptr%d' % op, b)
    # the index one past a block that fills the decoder's array completely (the array has no spare entry)
    Lf = bytes(900000)
    one('C:origptr=n, full level-9 block', Block(L=Lf, origptr=900000, plain_for_crc=_unrle(Lf)), level=9, mutate='none')
    one('C:origptr=n-1, full level-9 block', Block(L=Lf, origptr=899999, plain_for_crc=_unrle(Lf)), level=9, mutate='none')
    # D: randomised blocks around the 617 threshold
    for n in (5, 616, 617, 618, 619, 1300) if not quick else (5, 617, 618, 1300):
        pl = (b'randomised block %d ' % n * 100)[:n]
        one('D:rand%d' % n, Block(pl, rand=1), mutate='fields')
    # a randomised block long enough to use the table of 512 random numbers more than once (it wraps
    # after 278210 bytes); built from its BWT column, the plaintext follows from the reference steps
    for n in ((300000,) if quick else (278200, 278212, 300000, 899000)):
        Lr = b'ab' * (n // 2)
        for extra in range(6):
            try:
                rle = bytearray(_ibwt(Lr, 0))
                for pz in bzgen._rand_positions(len(rle)):
                    rle[pz] ^= 1
                plain_r = bzgen.unrle1(bytes(rle))
                break
            except bzgen.EndsInsideRun:
                Lr += b'ab'
        one('D:rand%d (table wraps)' % n, Block(L=Lr, origptr=0, rand=1, plain_for_crc=plain_r), level=9, mutate='none')
    # E: four equal bytes at the end, with / without count
    one('E:aaaa+0', Block(rle=b'aaaa\x00', plain_for_crc=b'aaaa'))
    one('E:aaaa nocount', Block(rle=b'aaaa', plain_for_crc=b'aaaa'))
    one('E:xaaaa nocount', Block(rle=b'xbaaaa', plain_for_crc=b'xbaaaa'))
    one('E:aaaa+255', Block(rle=b'aaaa\xff', plain_for_crc=b'a' * 259), mutate='fields')
    # F: every complete code over small alphabets; incomplete / oversubscribed
    for alpha, pl in ((3, b'a'), (4, b'ab'), (5, b'abc')):
        vecs = kraft_complete_vectors(alpha, 3 if quick else 4)
        for v in vecs:
            one('F:code%s' % v, Block(pl * 3, tables=[v, bzgen.flat_code(alpha)]), mutate='fields' if alpha > 3 else 'all')
    for nm, tabs in (('incomplete used', [[2, 2, 2], [1, 2, 2]]), ('incomplete unused', [[1, 2, 2], [2, 2, 2]]),
                     ('oversub used', [[1, 1, 2], [1, 2, 2]]), ('oversub unused', [[1, 2, 2], [1, 1, 1]]),
                     ('incomplete used 2', [[3, 3, 3], [1, 2, 2]])):
        one('F:' + nm, Block(b'a' * 2, tables=tabs), mutate='fields')
    lad = list(range(1, 20)) + [20, 20]          # 21 symbols: 19 bytes in use
    pl19 = bytes(range(19)) * 2
    one('F:ladder20', Block(pl19, tables=[lad, bzgen.flat_code(21)]), mutate='fields')
    one('F:ladder20 rev', Block(pl19, tables=[list(reversed(lad)), lad]), mutate='fields')
    # every code that occurs is 20 bits long (the short codes go to symbols that never occur): a group of 50
    # then takes 1000 bits, the most the fast path of retrieve() has to allow for
    one('F:all20bit', all20_block(260), mutate='fields')
    one('F:all20bit short', all20_block(60), mutate='none')
    # G: delta-code paths with excursions
    exc = [[+1, -1], [-1, +1], [+1, +1, -1, -1], [-1, -1, +1, +1], [+1, -1, +1, -1], [-1, +1, -1, +1],
           [+1, -1, -1, +1], [-1, +1, +1, -1], [+1, +1, +1, -1, -1, -1], [-1, -1, -1, +1, +1, +1]]
    for base_tabs, nm in (([[1, 2, 2], [2, 1, 2]], 'len1'), ([lad, list(reversed(lad))], 'len20')):
        pl = b'a' * 2 if nm == 'len1' else pl19
        for t in (0, 1):
            for i in ((0, 1, 2) if nm == 'len1' else (0, 1, 19, 20)):
                for e in exc if not quick else exc[:6]:
                    lens = base_tabs[t]
                    prev = lens[i - 1] if i else lens[0]
                    direct = [+1] * max(0, lens[i] - prev) + [-1] * max(0, prev - lens[i])
                    for where in ('before', 'after'):
                        path = (e + direct) if where == 'before' else (direct + e)
                        one('G:%s t%d s%d %s %s' % (nm, t, i, e, where),
                            Block(pl, tables=base_tabs, selectors=None, paths={(t, i): path}), mutate='none')
    for st in (0, 1, 21, 31):
        one('G:start%d' % st, Block(b'a' * 2, tables=[[1, 2, 2], [2, 1, 2]], start_len={0: st}), mutate='none')
    # H: tables and selector sequences, surplus selectors
    pl3 = bytes((i * 7) % 11 for i in range(130))            # 130+ symbols -> 3 groups
    a3 = len(set(pl3)) + 2
    for nt in (2, 3, 6) if quick else (2, 3, 4, 5, 6):
        tabs = [bzgen.flat_code(a3)] * nt
        seqs = list(itertools.product(range(nt), repeat=3))
        if quick:
            seqs = seqs[:: max(1, len(seqs) // 8)]
        for sq in seqs:
            one('H:nt%d sel%s' % (nt, sq), Block(pl3, tables=tabs, selectors=list(sq)), mutate='none')
    for sur in (1, 2, 7, 17998, 17999, 18000, 32764):
        one('H:surplus%d' % sur, Block(pl3, tables=[bzgen.flat_code(a3)] * 3, selectors=[0, 1, 2], surplus=sur, surplus_value=sur % 3),
            mutate='fields' if sur < 10 else 'none')
    one('H:too few selectors', Block(pl3, tables=[bzgen.flat_code(a3)] * 2, selectors=[0, 1], nsel_declared=2), mutate='none')
    # I: second block at each of the 8 bit alignments
    for k in range(8):
        add('I:align%d' % k, [([Block(b'first', surplus=k), Block(b'second block')], 1)], mutate='all' if k in (0, 3) and not quick else 'fields')
    # J: concatenation, empty streams, trailing data
    s1 = ([Block(b'one')], 1)
    s9 = ([Block(b'nine'), Block(b'nine-2')], 9)
    s0 = ([], 5)
    add('J:1+9', [s1, s9], mutate='fields')
    add('J:empty', [s0])
    add('J:empty+1', [s0, s1], mutate='fields')
    add('J:1+empty+9', [s1, s0, s9], mutate='fields')
    # the declared block size belongs to the stream: a 100001-byte block is an overrun in a level-1 stream
    # whatever the level of the first stream was, and fine in a level-2 stream that follows a level-1 stream
    Lz = bytes(100001)
    big = Block(L=Lz, origptr=100000, plain_for_crc=_unrle(Lz))
    add('J:9+L1 overrun', [s9, ([big], 1)], mutate='none')
    add('J:1+L2 n100001', [s1, ([big], 2)], mutate='none')
    add('J:1+L2 n100001+L1 overrun', [s1, ([big], 2), ([big], 1)], mutate='none')
    valid1 = bzgen.build([s1])[0]
    for tr in (b'\x00', b'\x00\x00\x00\x00', b'B', b'BZ', b'BZh', b'BZh0', b'BZh:', b'BZh9', b'BZh9garbage', valid1,
               b'x' + valid1, b'BZh1' + b'\x17\x72\x45\x38\x50\x90\x00\x00\x00\x01', b'\x00' * 3 + b'BZh9'):
        add('J:trail %r' % tr[:12], [s1], trailing=tr, mutate='none')
    return out

def all20_block(nsym, shift=0):
    """139 byte values used round-robin: every MTF symbol is the deepest one; code lengths 1..13 for the 13
    symbols that never occur and 20 for the other 128 (Kraft sum exactly 1)"""
    L = bytes(i % 139 for i in range(nsym + 139))     # the first 139 bring every value to the front once
    lens = list(range(1, 14)) + [20] * 128
    assert len(lens) == 141
    # the first round uses MTF ranks 0..138 (rank r for the r-th new value): give the whole alphabet 20-bit-heavy
    # codes by numbering: symbols 0,1 (RUNA/RUNB) and 2..12 get the short codes only if they do not occur; the
    # first round does use small ranks, so start the block with the values in descending order instead
    L = bytes(138 - (i % 139) for i in range(139)) + bytes(138 - (i % 139) for i in range(nsym))
    # `shift' surplus selectors of one bit each move the coded data by that many bits
    return Block(L=L, origptr=0, plain_for_crc=_unrle(_ibwt(L, 0)), tables=[lens, lens], surplus=shift)

def _unrle(rle):
    out = bytearray()
    i, n = 0, len(rle)
    while i < n:
        c = rle[i]; r = 1
        while r < 4 and i + r < n and rle[i + r] == c:
            r += 1
        i += r
        out += bytes([c]) * r
        if r == 4 and i < n:
            out += bytes([c]) * rle[i]
            i += 1
    return bytes(out)

def _ibwt(L, idx):
    n = len(L)
    order = sorted(range(n), key=lambda i: (L[i], i))
    out = bytearray()
    p = order[idx]
    for _ in range(n):
        out.append(L[p])
        p = order[p]
    return bytes(out)

def candidates(tier, chk=None):
    """Distinct candidate byte strings with a description each (memoised on disk: the
    generator is pure Python and depends only on this file and bzgen.py)."""
    import pickle
    key = build._hash_files([__file__, bzgen.__file__], [tier])
    cp = os.path.join(build.CACHE, 'decdiff-cands-%s.pickle' % key)
    try:
        with open(cp, 'rb') as f:
            return pickle.load(f)
    except Exception:
        pass
    r = _candidates(tier)
    os.makedirs(build.CACHE, exist_ok=True)
    with open(cp + '.tmp.%d' % os.getpid(), 'wb') as f:
        pickle.dump(r, f)
    os.replace(cp + '.tmp.%d' % os.getpid(), cp)
    return r

def _candidates(tier):
    seen = {}
    order = []
    cur = [0]
    def put(desc, data):
        h = hashlib.sha1(data).digest()
        if h not in seen:
            seen[h] = len(order)
            order.append((desc, data, cur[0]))
    nbase = 0
    for name, data, fields, mutate in base_streams(tier):
        cur[0] = len(order)       # index of the (first new) candidate of this base stream
        nbase += 1
        put(name, data)
        if mutate == 'none':
            continue
        if mutate == 'all' and len(data) <= 150:
            for (k, i), m in bzgen.all_bitflips(data):
                put('%s ^bit%d' % (name, i), m)
            for (k, i), m in bzgen.all_truncations(data):
                put('%s [:%d]' % (name, i), m)
        else:
            # field-aware: every bit of every header field (first 64 bits of
            # the variable-length ones), every truncation inside the last 16
            # bytes and at every field start
            for fname, start, nbits in fields:
                for i in range(start, start + min(nbits, 64)):
                    if i < len(data) * 8:
                        put('%s ^%s+%d' % (name, fname, i - start), bzgen.flip(data, i))
                if fname.endswith('.data') or fname.endswith('.selectors'):
                    for i in range(start, min(start + 64, len(data) * 8)):
                        put('%s ^%s+%d' % (name, fname, i - start), bzgen.flip(data, i))
            cuts = set(range(max(0, len(data) - 16), len(data))) | {s // 8 for _, s, _ in fields} | {s // 8 + 1 for _, s, _ in fields}
            for n in sorted(cuts):
                if n < len(data):
                    put('%s [:%d]' % (name, n), data[:n])
    return nbase, order

def configs_for(data, v, base_out=0):
    """(name, args, env) per candidate: stock granularity with one worker, and
    two workers with tiny input blocks / output buffers (larger ones for big
    streams so that a run stays within the horizon of the scheduler harness)."""
    big = len(data) > 300 or v['out_len'] > 1500 or base_out > 1500
    huge = len(data) > 20000 or v['out_len'] > 2000000 or base_out > 2000000
    env = ({'LBZIP2_VERIF_IN_GRANUL': '16384'} if huge else
           {'LBZIP2_VERIF_IN_GRANUL': '256', 'LBZIP2_VERIF_OUT_GRANUL': '65536'} if big else
           {'LBZIP2_VERIF_IN_GRANUL': '8', 'LBZIP2_VERIF_OUT_GRANUL': '3'})
    return [('W1 stock', ['-n1'], {}), ('W2 tiny-granularity', ['-n2'], env)]
CONFIG_NAMES = ['W1 stock', 'W2 tiny-granularity']

def run_all(tier, variant='fast', chk=None, use_cache=True):
    """Returns dict(nbase, cands=[(desc,data)], ref=[verdict], res={cfg:[result]}, cross=[...])."""
    key = hashlib.sha1(('%s|%s|%s|%s' % (build.repo_key(), tier, variant,
                        build._hash_files([__file__, bzgen.__file__, os.path.join(build.FW, 'bzref', 'bzref.c'),
                                           os.path.join(build.FW, 'lbzx', 'vsched.c'),
                                           os.path.join(build.FW, 'lbzx', 'explore.c')]))).encode()).hexdigest()[:16]
    cpath = os.path.join(build.CACHE, 'decdiff-%s.json' % key)
    nbase, cands = candidates(tier)
    if use_cache and os.path.exists(cpath) and time.time() - os.path.getmtime(cpath) < 1800:
        try:
            c = json.load(open(cpath))
            if c['n'] == len(cands):
                c['cands'] = cands
                c['nbase'] = nbase
                c['cached'] = True
                return c
        except Exception:
            pass
    datas = [c[1] for c in cands]
    ref = bzref.batch(datas)
    res = {}
    for ci, cname in enumerate(CONFIG_NAMES):
        cases = []
        for (_, d, bi), v in zip(cands, ref):
            _, args, env = configs_for(d, v, ref[bi]['out_len'] if bi < len(ref) else 0)[ci]
            cases.append({'argv': ['lbzip2', '-d'] + args, 'env': env, 'stdin': d})
        rs = lbzx.batch(variant, cases, timeout=120)
        # a mutant can decode to far more than its base stream (a flipped run
        # symbol): tiny output buffers then exceed the harness horizon; those
        # candidates are re-run with larger buffers
        redo = [i for i, x in enumerate(rs) if x['kind'] == 'horizon']
        if redo:
            rc = [dict(cases[i], env={'LBZIP2_VERIF_IN_GRANUL': '256', 'LBZIP2_VERIF_OUT_GRANUL': '65536'}) for i in redo]
            for i, x in zip(redo, lbzx.batch(variant, rc, timeout=120)):
                rs[i] = x
        res[cname] = rs
    cross = [bzref.crosscheck(d, v) for d, v in zip(datas, ref)]
    c = {'n': len(cands), 'ref': ref, 'res': res, 'cross': cross}
    os.makedirs(build.CACHE, exist_ok=True)
    json.dump(c, open(cpath + '.tmp', 'w'))
    os.replace(cpath + '.tmp', cpath)
    c['cands'] = cands
    c['nbase'] = nbase
    c['cached'] = False
    return c
