"""Helpers for checks that look at the file system left behind by a run."""
import os

def parse_fs(desc):
    """'name|f|640|1|3000|946684900.987654321|hash;...' -> {name: dict}"""
    out = {}
    for ent in desc.split(';'):
        ent = ent.strip()
        if not ent:
            continue
        f = ent.split('|')
        if len(f) < 7:
            out['<truncated>'] = {'type': '?'}
            continue
        out[f[0]] = {'type': f[1], 'mode': int(f[2], 8), 'nlink': int(f[3]), 'size': int(f[4]), 'mtime': f[5], 'hash': f[6]}
    return out

def make_file(path, data, mode=0o644, atime_ns=946684800_123456789, mtime_ns=946684900_987654321):
    with open(path, 'wb') as f:
        f.write(data)
    os.chmod(path, mode)
    os.utime(path, ns=(atime_ns, mtime_ns))

def mtime_str(ns):
    return '%d.%09d' % (ns // 1_000_000_000, ns % 1_000_000_000)
