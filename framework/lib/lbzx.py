"""Python side of engines E1/E2: run and explore lbzip2 under vsched."""
import json, os, subprocess, tempfile
from . import build, common

ENV = dict(os.environ)
ENV.update({
    'ASAN_OPTIONS': 'detect_leaks=0:exitcode=97:abort_on_error=0:allocator_may_return_null=1',
    'UBSAN_OPTIONS': 'print_stacktrace=0:exitcode=98',
    'TSAN_OPTIONS': 'exitcode=96:halt_on_error=1:report_signal_unsafe=0',
    'MSAN_OPTIONS': 'exitcode=95',
})
for k in ('LBZIP2', 'BZIP2', 'BZIP'):
    ENV.pop(k, None)

def _common_opts(stdin_path=None, policy='P0', renv=None, wenv=None, sigs=None, spurious=0,
                 rfrag=0, wfrag=0, ign_sigpipe=False, setenv=None, heap_limit=0, timeout=None,
                 argv0=None, chdir=None, fork=False, horizon=0, env_all_fds=False, cpu_base=0,
                 fs_template=None, fs_work=None, fenv=None, senv=None, inherit_mask=None, nprio=0, demote=0):
    o = []
    if stdin_path: o += ['--stdin', stdin_path]
    o += ['--policy', policy]
    if renv: o += ['--renv', renv]
    if wenv: o += ['--wenv', wenv]
    if sigs: o += ['--sigs', sigs]
    if spurious: o += ['--spurious', str(spurious)]
    if rfrag: o += ['--rfrag', str(rfrag)]
    if wfrag: o += ['--wfrag', str(wfrag)]
    if ign_sigpipe: o += ['--ign-sigpipe']
    if env_all_fds: o += ['--env-all-fds']
    for k, v in (setenv or {}).items():
        o += ['--setenv', '%s=%s' % (k, v)]
    if heap_limit: o += ['--heap-limit', str(heap_limit)]
    if timeout: o += ['--timeout', str(timeout)]
    if argv0: o += ['--argv0', argv0]
    if chdir: o += ['--chdir', chdir]
    if horizon: o += ['--horizon', str(horizon)]
    if fork: o += ['--fork']
    if cpu_base: o += ['--cpu-base', str(cpu_base)]
    if fs_template: o += ['--fs-template', fs_template]
    if fs_work: o += ['--fs-work', fs_work]
    if fenv: o += ['--fenv', fenv]
    if senv: o += ['--senv', senv]
    if nprio: o += ['--nprio', str(nprio)]
    if demote: o += ['--demote', str(demote)]
    if inherit_mask: o += ['--inherit-mask', inherit_mask]
    return o

def run(variant, args, dev=None, save_stdout=None, save_stderr=None, cps=False, **kw):
    exe = build.lbzx(variant)
    cmd = [exe, 'run'] + _common_opts(**kw)
    if dev:
        cmd += ['--dev', ','.join('%d.%d' % (i, a) for i, a in dev)]
    if save_stdout: cmd += ['--save-stdout', save_stdout]
    if save_stderr: cmd += ['--save-stderr', save_stderr]
    if cps: cmd += ['--cps']
    cmd += ['--'] + list(args)
    p = subprocess.run(cmd, stdout=subprocess.PIPE, stderr=subprocess.PIPE, env=ENV)
    if p.returncode != 0:
        common.harness_error('lbzx run failed (%d): %s' % (p.returncode, p.stderr.decode(errors='replace')[-2000:]))
    r = json.loads(p.stdout)
    r['cmd'] = cmd
    return r

def explore(variant, args, bound=0, jobs=None, deadline=None, **kw):
    exe = build.lbzx(variant)
    cmd = [exe, 'explore'] + _common_opts(**kw) + ['--bound', str(bound), '--jobs', str(jobs or common.NCPU)]
    if deadline is not None:
        cmd += ['--deadline', '%.1f' % max(1.0, deadline)]
    cmd += ['--'] + list(args)
    p = subprocess.run(cmd, stdout=subprocess.PIPE, stderr=subprocess.PIPE, env=ENV)
    if p.returncode != 0:
        common.harness_error('lbzx explore failed (%d): %s' % (p.returncode, p.stderr.decode(errors='replace')[-2000:]))
    r = json.loads(p.stdout)
    r['cmd'] = cmd
    if r.get('worker_failure'):
        common.harness_error('lbzx explore: a worker process failed: ' + ' '.join(cmd))
    return r

def replay_line(cmd_or_variant, args=None, policy=None, dev=None, opts=None):
    return ' '.join(cmd_or_variant) if isinstance(cmd_or_variant, list) else ''

def class_key(c):
    return (c['kind'], c['code'], c['stdout_hash'], c['stdout_len'])

def cls_str(c):
    s = '%s(%s) stdout=%d bytes/%s stderr=%r inv=%s%s via %s dev=%s' % (
        c['kind'], c['code'], c['stdout_len'], c['stdout_hash'], c.get('stderr_head', '')[:160],
        c.get('inv'), ' SANITIZER' if c.get('sanitizer') else '', c.get('policy'), c.get('dev'))
    if c.get('note'):
        s += ' note=' + c['note']
    return s

import struct

EVENT_NAMES = ['reorder', 'parse', 'emit', 'retrieve', 'scan', 'transmit', 'collect', 'collect_seq',
               'x-scan-candidate', 'x-scan-known', 'x-parse-adopt', 'x-parse-discard', 'x-retr-abort',
               'x-reorder-reject', 'x-advance-drop', 'x-eof-drop']

def _pack_case(c):
    out = []
    argv = [a if isinstance(a, bytes) else a.encode() for a in c['argv']]
    out.append(struct.pack('<I', len(argv)))
    for a in argv:
        out.append(struct.pack('<I', len(a)) + a)
    env = c.get('env') or {}
    out.append(struct.pack('<I', len(env)))
    for k, v in env.items():
        s = ('%s=%s' % (k, v)).encode()
        out.append(struct.pack('<I', len(s)) + s)
    cd = (c.get('chdir') or '').encode()
    out.append(struct.pack('<I', len(cd)) + cd)
    flags = (c.get('policy', 0) & 3) | (4 if c.get('save') else 0) | (8 if c.get('ign_sigpipe') else 0)
    out.append(struct.pack('<III', flags, c.get('rfrag', 0), c.get('wfrag', 0)))
    sin = c.get('stdin')
    if sin is None:
        out.append(struct.pack('<I', 0xffffffff))
    else:
        out.append(struct.pack('<I', len(sin)) + sin)
    return b''.join(out)

def batch(variant, cases, jobs=None, outdir=None, timeout=None, workdir=None):
    """Run many independent cases (own argv/env/stdin/cwd each) under the
    canonical schedule inside long-lived executors.  Returns one dict per case."""
    exe = build.lbzx(variant)
    wd = workdir or common.scratch('batch')
    path = os.path.join(wd, 'cases.%d.bin' % id(cases))
    with open(path, 'wb') as f:
        f.write(b'LBZXB1\n')
        for c in cases:
            f.write(_pack_case(c))
    cmd = [exe, 'batch', '--cases', path, '--jobs', str(jobs or common.NCPU)]
    if outdir: cmd += ['--outdir', outdir]
    if timeout: cmd += ['--timeout', str(timeout)]
    p = subprocess.run(cmd, stdout=subprocess.PIPE, stderr=subprocess.PIPE, env=ENV)
    os.unlink(path)
    if p.returncode != 0:
        common.harness_error('lbzx batch failed (%d): %s' % (p.returncode, p.stderr.decode(errors='replace')[-2000:]))
    res = []
    for line in p.stdout.decode(errors='replace').split('\n'):
        if not line:
            continue
        f = line.split('\t')
        res.append({'idx': int(f[0]), 'kind': f[1], 'code': int(f[2]), 'stdout_len': int(f[3]), 'stdout_hash': f[4],
                    'stderr_len': int(f[5]), 'stderr_hash': f[6], 'inv': int(f[7]), 'sanitizer': int(f[8]),
                    'ncp': int(f[9]), 'stderr_head': f[10] if len(f) > 10 else '',
                    'events': dict(zip(EVENT_NAMES, [int(v) for v in f[11].split(',')])) if len(f) > 11 and f[11] else {}})
    if len(res) != len(cases):
        common.harness_error('lbzx batch: %d results for %d cases' % (len(res), len(cases)))
    return res
