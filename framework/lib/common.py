"""Shared plumbing of the checks: tiers, deadlines, evidence, violations,
known findings, scratch directories."""
import json, os, sys, time, hashlib, shutil, tempfile, atexit, subprocess

VERIF = os.path.dirname(os.path.dirname(os.path.dirname(os.path.abspath(__file__))))
# VERIF_OUT redirects evidence and replay files (used when the checks are run
# against a scratch tree with a seeded change, VERIF_REPO=<tree>, so that the
# committed evidence of /repo is not overwritten)
_OUT = os.environ.get('VERIF_OUT') or VERIF
EVID = os.path.join(_OUT, 'evidence')
REPLAYS = os.path.join(_OUT, 'replays')
SCRATCH_ROOT = os.path.join(VERIF, 'build', 'scratch')
NCPU = os.cpu_count() or 4

def fnv64(b):
    h = 1469598103934665603
    for x in b:
        h ^= x
        h = (h * 1099511628211) & 0xFFFFFFFFFFFFFFFF
    return '%016x' % h

_scratch = []
def scratch(prefix='s'):
    os.makedirs(SCRATCH_ROOT, exist_ok=True)
    d = tempfile.mkdtemp(prefix='%s.%d.' % (prefix, os.getpid()), dir=SCRATCH_ROOT)
    _scratch.append(d)
    return d

def _cleanup():
    for d in _scratch:
        shutil.rmtree(d, ignore_errors=True)
atexit.register(_cleanup)

def load_known():
    p = os.path.join(VERIF, 'known_findings.json')
    try:
        with open(p) as f:
            return json.load(f)
    except (OSError, ValueError):
        return {'findings': [], 'fixed': []}

class Check:
    """One run of one property's check."""
    def __init__(self, pid, level, tier, quick_deadline=150, thorough_deadline=1500):
        self.pid = pid
        self.level = level
        self.tier = tier if tier in ('quick', 'thorough') else 'quick'
        self.seed = int(os.environ.get('VERIF_SEED', '0') or 0)
        self.t0 = time.time()
        dl = os.environ.get('VERIF_DEADLINE')
        self.deadline = self.t0 + (float(dl) if dl else (quick_deadline if self.tier == 'quick' else thorough_deadline))
        self.cov = {'evaluations': 0, 'distinct_nontrivial': 0, 'rule': '', 'samples': [],
                    'exhaustive': True, 'legs': {}}
        self.assumptions = []
        self.violations = []
        self.known_hits = []
        self.caps = []
        self.known = [k for k in load_known().get('findings', []) if k.get('property') == pid]
        self._vkeys = set()

    # -- time ---------------------------------------------------------------
    def left(self):
        return self.deadline - time.time()

    def expired(self):
        return time.time() > self.deadline

    def cap(self, what):
        """Record that a bound/deadline cut the enumeration short."""
        self.caps.append(what)
        self.cov['exhaustive'] = False

    # -- evidence -------------------------------------------------------------
    def leg(self, name, **kw):
        d = self.cov['legs'].setdefault(name, {})
        for k, v in kw.items():
            if isinstance(v, (int, float)) and isinstance(d.get(k), (int, float)) and not isinstance(v, bool):
                d[k] += v
            else:
                d[k] = v
        return d

    def sample(self, s, limit=12):
        if len(self.cov['samples']) < limit:
            self.cov['samples'].append(s)

    # -- verdicts -------------------------------------------------------------
    def violation(self, key, what, replay):
        """key: canonical fingerprint of the failing case (for known findings
        and de-duplication); replay: JSON-serialisable dict."""
        if key in self._vkeys:
            return
        self._vkeys.add(key)
        for k in self.known:
            if k.get('fingerprint') == key:
                self.known_hits.append((k, what))
                print('KNOWN-FINDING: property=%s %s' % (self.pid, k.get('what', what)))
                return
        d = os.path.join(REPLAYS, self.pid)
        os.makedirs(d, exist_ok=True)
        name = hashlib.sha1(key.encode()).hexdigest()[:12] + '.json'
        path = os.path.join(d, name)
        rec = dict(replay)
        rec.update({'property': self.pid, 'fingerprint': key, 'what': what})
        with open(path, 'w') as f:
            json.dump(rec, f, indent=1, default=str)
        self.violations.append((key, what, path))
        print('VIOLATION property=%s replay=%s' % (self.pid, path))
        print('  ' + what.replace('\n', '\n  '))
        sys.stdout.flush()

    def finish(self):
        self.cov['caps_hit'] = self.caps
        if self.caps:
            self.cov['exhaustive'] = False
        ev = {
            'property_id': self.pid,
            'tier': self.tier,
            'seed': self.seed,
            'level': self.level,
            'coverage': self.cov,
            'assumptions': self.assumptions,
            'wall_s': round(time.time() - self.t0, 3),
            'violations': len(self.violations),
            'known_findings_seen': [k.get('fingerprint') for k, _ in self.known_hits],
        }
        os.makedirs(EVID, exist_ok=True)
        tmp = os.path.join(EVID, self.pid + '.json.tmp')
        with open(tmp, 'w') as f:
            json.dump(ev, f, indent=1, default=str)
        os.replace(tmp, os.path.join(EVID, self.pid + '.json'))
        print('%s %s: evaluations=%d distinct=%d exhaustive=%s violations=%d wall=%.1fs%s' % (
            self.pid, self.tier, self.cov.get('evaluations', 0), self.cov.get('distinct_nontrivial', 0),
            self.cov['exhaustive'], len(self.violations), ev['wall_s'],
            (' caps=' + ';'.join(self.caps)) if self.caps else ''))
        return 1 if self.violations else 0

def harness_error(msg):
    print('HARNESS-ERROR: ' + msg)
    sys.exit(2)

def pmap(fn, items, workers=None):
    """Run fn over items in threads (the work is in subprocesses)."""
    from concurrent.futures import ThreadPoolExecutor
    with ThreadPoolExecutor(max_workers=workers or NCPU) as ex:
        return list(ex.map(fn, items))
