"""Deterministic input families ("kinds corpus", DESIGN.md section 5)."""
import bz2, os, hashlib

def lcg(n, seed=12345):
    """n incompressible bytes from a fixed 64-bit LCG (high byte)."""
    out = bytearray(n)
    x = seed & 0xFFFFFFFFFFFFFFFF
    for i in range(n):
        x = (x * 6364136223846793005 + 1442695040888963407) & 0xFFFFFFFFFFFFFFFF
        out[i] = x >> 56
    return bytes(out)

def fib_word(n, a=b'a', b=b'b'):
    x, y = a, a + b
    while len(y) < n:
        x, y = y, y + x
    return y[:n]

def kind(k, n, salt=0):
    """One chunk-sized piece of kind k (see DESIGN: N E C R Z T F)."""
    if k == 'N':      # no runs: period-3 text
        base = bytes([97 + salt % 20, 98 + salt % 20, 99 + salt % 20])
        return (base * (n // 3 + 1))[:n]
    if k == 'F':      # Fibonacci word
        return fib_word(n, bytes([65 + salt % 20]), bytes([66 + salt % 20]))
    if k == 'E':      # runs of exactly 4: RLE expands 4 -> 5
        out = bytearray()
        c = salt % 7
        while len(out) < n:
            out += bytes([48 + c % 10]) * 4
            c += 1
        return bytes(out[:n])
    if k == 'C':      # long runs: 259 -> 5
        out = bytearray()
        c = salt % 5
        while len(out) < n:
            out += bytes([100 + c % 7]) * 300
            c += 1
        return bytes(out[:n])
    if k == 'R':      # incompressible
        return lcg(n, 999 + salt)
    if k == 'Z':
        return bytes(n)
    if k == 'T':      # tandem repeat with a long period
        p = lcg(1009, 77 + salt)
        return (p * (n // len(p) + 1))[:n]
    raise ValueError(k)

def shape(spec, unit=100000):
    """spec like 'N', 'EZ', 'Ns' (s = short last chunk of 1/7 unit), '' = empty"""
    out = bytearray()
    i = 0
    j = 0
    while i < len(spec):
        k = spec[i]
        n = unit
        if i + 1 < len(spec) and spec[i + 1] == 's':
            n = unit // 7 + 3
            i += 1
        out += kind(k, n, j)
        i += 1
        j += 1
    return bytes(out)

def bunzip(data):
    """Reference decompression of a complete multi-stream file with libbz2
    (python's bz2 module).  Returns bytes or raises."""
    return bz2.decompress(data)

def bzip_ref(data, level=9):
    return bz2.compress(data, level)

_written = {}
def to_file(dirpath, data, name=None):
    h = hashlib.sha1(data).hexdigest()[:16]
    p = os.path.join(dirpath, name or ('in-' + h))
    if _written.get(p) != h:
        with open(p, 'wb') as f:
            f.write(data)
        _written[p] = h
    return p
