"""Engine E4: bit-level writer for bzip2 streams with every degree of freedom of
the format exposed, plus mutation helpers.  Independent of lbzip2 and bzref."""
import itertools

BLOCK_MAGIC = 0x314159265359
EOS_MAGIC = 0x177245385090

_crc_tab = []
for _i in range(256):
    _c = _i << 24
    for _ in range(8):
        _c = ((_c << 1) ^ 0x04c11db7) & 0xffffffff if _c & 0x80000000 else (_c << 1) & 0xffffffff
    _crc_tab.append(_c)

def crc(data):
    c = 0xffffffff
    for b in data:
        c = ((c << 8) & 0xffffffff) ^ _crc_tab[(c >> 24) ^ b]
    return c ^ 0xffffffff

RNUMS = None   # filled lazily from the format table below
_RN = """619 720 127 481 931 816 813 233 566 247 985 724 205 454 863 491 741 242 949 214 733 859 335 708 621 574 73 654 730 472 419 436
278 496 867 210 399 680 480 51 878 465 811 169 869 675 611 697 867 561 862 687 507 283 482 129 807 591 733 623 150 238 59 379
684 877 625 169 643 105 170 607 520 932 727 476 693 425 174 647 73 122 335 530 442 853 695 249 445 515 909 545 703 919 874 474
882 500 594 612 641 801 220 162 819 984 589 513 495 799 161 604 958 533 221 400 386 867 600 782 382 596 414 171 516 375 682 485
911 276 98 553 163 354 666 933 424 341 533 870 227 730 475 186 263 647 537 686 600 224 469 68 770 919 190 373 294 822 808 206
184 943 795 384 383 461 404 758 839 887 715 67 618 276 204 918 873 777 604 560 951 160 578 722 79 804 96 409 713 940 652 934
970 447 318 353 859 672 112 785 645 863 803 350 139 93 354 99 820 908 609 772 154 274 580 184 79 626 630 742 653 282 762 623
680 81 927 626 789 125 411 521 938 300 821 78 343 175 128 250 170 774 972 275 999 639 495 78 352 126 857 956 358 619 580 124
737 594 701 612 669 112 134 694 363 992 809 743 168 974 944 375 748 52 600 747 642 182 862 81 344 805 988 739 511 655 814 334
249 515 897 955 664 981 649 113 974 459 893 228 433 837 553 268 926 240 102 654 459 51 686 754 806 760 493 403 415 394 687 700
946 670 656 610 738 392 760 799 887 653 978 321 576 617 626 502 894 679 243 440 680 879 194 572 640 724 926 56 204 700 707 151
457 449 797 195 791 558 945 679 297 59 87 824 713 663 412 693 342 606 134 108 571 364 631 212 174 643 304 329 343 97 430 751
497 314 983 374 822 928 140 206 73 263 980 736 876 478 430 305 170 514 364 692 829 82 855 953 676 246 369 970 294 750 807 827
150 790 288 923 804 378 215 828 592 281 565 555 710 82 896 831 547 261 524 462 293 465 502 56 661 821 976 991 658 869 905 758
745 193 768 550 608 933 378 286 215 979 792 961 61 688 793 644 986 403 106 366 905 644 372 567 466 434 645 210 389 550 919 135
780 773 635 389 707 100 626 958 165 504 920 176 193 713 857 265 203 50 668 108 645 990 626 197 510 357 358 850 858 364 936 638"""
RNUMS = [int(x) for x in _RN.split()]
assert len(RNUMS) == 512

def rand_mask_positions(n):
    """Positions (0-based) of bytes that a randomised block of n bytes flips."""
    out = []
    pos = -1
    t = 0
    while True:
        pos += RNUMS[t] - 1 if t == 0 else RNUMS[t]
        # bzip2: rNToGo = rNums[t]; each byte: rNToGo--, flip when rNToGo == 1
        t = (t + 1) & 511
        if pos >= n:
            break
        out.append(pos)
    return out

def _rand_positions(n):
    out = []
    togo, t = 0, 0
    for i in range(n):
        if togo == 0:
            togo = RNUMS[t]
            t = (t + 1) & 511
        togo -= 1
        if togo == 1:
            out.append(i)
    return out

def rle1(data):
    """The initial run-length coding as bzip2 writes it (runs of 4..259)."""
    out = bytearray()
    i, n = 0, len(data)
    while i < n:
        c = data[i]
        r = 1
        while i + r < n and data[i + r] == c and r < 259:
            r += 1
        if r >= 4:
            out += bytes([c]) * 4 + bytes([r - 4])
        else:
            out += bytes([c]) * r
        i += r
    return bytes(out)

def bwt(block):
    """(last column, primary index) by sorting rotations (small blocks only)."""
    n = len(block)
    if n == 0:
        return b'', 0
    d = block + block
    idx = sorted(range(n), key=lambda i: d[i:i + n])
    last = bytes(d[i + n - 1] for i in idx)
    return last, idx.index(0)

def flat_code(alpha):
    """A complete code with lengths floor(log2) / +1."""
    k = alpha.bit_length() - 1
    short = (2 << k) - alpha
    return [k] * short + [k + 1] * (alpha - short) if k >= 1 else [1] * alpha

def canonical(lengths):
    """symbol -> (code, length), canonical order (length, index); works for
    incomplete length sets too."""
    code = 0
    out = {}
    for l in range(1, 21):
        for s, ls in enumerate(lengths):
            if ls == l:
                out[s] = (code, l)
                code += 1
        code <<= 1
    return out

class Bits:
    def __init__(self):
        self.v = 0
        self.n = 0
        self.fields = []      # (name, start_bit, nbits)
    def put(self, nbits, value, name=None):
        if name:
            self.fields.append((name, self.n, nbits))
        self.v = (self.v << nbits) | (value & ((1 << nbits) - 1))
        self.n += nbits
    def pad(self):
        k = (-self.n) % 8
        if k:
            self.put(k, 0)
    def bytes(self):
        k = (-self.n) % 8
        return ((self.v << k).to_bytes((self.n + k) // 8, 'big')) if self.n else b''

class Block:
    """One compressed block.  Everything optional has the encoder-like default."""
    def __init__(self, plain=None, L=None, origptr=None, rle=None, rand=0, crc_value=None,
                 tables=None, selectors=None, nsel_declared=None, surplus=0, surplus_value=0,
                 start_len=None, paths=None, ntables=None, inuse=None, plain_for_crc=None, sel_codes=None, raw_syms=None):
        self.raw_syms = raw_syms
        if raw_syms is not None:
            # the MTF/zero-run symbols are given literally (without the end-of-block symbol)
            inuse = list(range(256)) if inuse is None else sorted(inuse)
            origptr = 0 if origptr is None else origptr
            L = mtf_decode(raw_syms, inuse)
            if plain_for_crc is None and crc_value is None:
                plain_for_crc = unrle1(ibwt(L, origptr))
        if L is None:
            if rle is None:
                rle = rle1(plain)
            src = bytearray(rle)
            if rand:
                for p in _rand_positions(len(src)):
                    src[p] ^= 1
            L, op = bwt(bytes(src))
            if origptr is None:
                origptr = op
        self.L, self.origptr, self.rand = L, origptr, rand
        self.plain = plain if plain is not None else plain_for_crc
        self.crc_value = crc_value if crc_value is not None else crc(self.plain if self.plain is not None else b'')
        self.inuse = sorted(set(L)) if inuse is None else sorted(inuse)
        self.tables, self.selectors = tables, selectors
        self.nsel_declared, self.surplus, self.surplus_value = nsel_declared, surplus, surplus_value
        self.start_len, self.paths, self.ntables = start_len, paths or {}, ntables
        self.sel_codes = sel_codes      # raw unary selector codes j (all tables must then be identical)

    def symbols(self):
        """MTF + zero-run coding of L: list of symbol numbers (0 RUNA, 1 RUNB, ..., EOB)."""
        if self.raw_syms is not None:
            return list(self.raw_syms) + [len(self.inuse) + 1]
        order = list(self.inuse)
        out = []
        run = 0
        def flush():
            nonlocal run
            while run > 0:
                run -= 1
                out.append(run & 1)
                run >>= 1
        for c in self.L:
            i = order.index(c)
            if i == 0:
                run += 1
                continue
            flush()
            out.append(i + 1)
            order.pop(i)
            order.insert(0, c)
        flush()
        out.append(len(self.inuse) + 1)
        return out

    def write(self, w, tag='b'):
        alpha = len(self.inuse) + 2
        syms = self.symbols()
        ngroups_needed = (len(syms) + 49) // 50
        tables = self.tables
        if tables is None:
            tables = [flat_code(alpha)] * (self.ntables or 2)
        nt = len(tables)
        sels = self.selectors
        if sels is None:
            sels = [0] * ngroups_needed
        sels = list(sels)
        declared = self.nsel_declared if self.nsel_declared is not None else len(sels) + self.surplus
        if self.sel_codes is not None:
            declared = len(self.sel_codes)
        w.put(48, BLOCK_MAGIC, tag + '.magic')
        w.put(32, self.crc_value, tag + '.crc')
        w.put(1, self.rand, tag + '.rand')
        w.put(24, self.origptr, tag + '.origptr')
        big = 0
        small = [0] * 16
        for c in self.inuse:
            big |= 0x8000 >> (c >> 4)
            small[c >> 4] |= 0x8000 >> (c & 15)
        w.put(16, big, tag + '.map16')
        for i in range(16):
            if small[i]:
                w.put(16, small[i], tag + '.map.%d' % i)
        w.put(3, nt, tag + '.ntables')
        w.put(15, declared, tag + '.nsel')
        # selectors, MTF + unary
        pos = list(range(max(nt, 6)))
        allsel = sels + [self.surplus_value] * self.surplus
        first = True
        if self.sel_codes is not None:
            for j in self.sel_codes:
                w.put(j + 1, ((1 << j) - 1) << 1, (tag + '.selectors') if first else None)
                first = False
            allsel = []
        for s in allsel:
            j = pos.index(s)
            pos.pop(j)
            pos.insert(0, s)
            w.put(j + 1, ((1 << j) - 1) << 1, (tag + '.selectors') if first else None)
            first = False
        # tables
        for t, lens in enumerate(tables):
            start = self.start_len.get(t, lens[0]) if isinstance(self.start_len, dict) else lens[0]
            w.put(5, start, tag + '.t%d.start' % t)
            cur = start
            for i, l in enumerate(lens):
                path = self.paths.get((t, i))
                if path is None:
                    path = []
                    c = cur
                    while c < l:
                        c += 1
                        path.append(+1)
                    while c > l:
                        c -= 1
                        path.append(-1)
                for step in path:
                    w.put(2, 2 if step > 0 else 3)
                    cur += step
                w.put(1, 0)
                assert cur == l, (t, i, cur, l)
        # data
        codes = [canonical(l) for l in tables]
        first = True
        for k, s in enumerate(syms):
            t = sels[k // 50] if k // 50 < len(sels) else 0
            c, l = codes[t][s]
            w.put(l, c, (tag + '.data') if first else None)
            first = False

# ---- literal symbol streams and the 'verbatim carrier' block ------------------

def mtf_decode(syms, inuse):
    """MTF/zero-run symbols (without end-of-block) -> last column L"""
    order = list(inuse)
    L = bytearray()
    run = shift = 0
    for s in syms:
        if s <= 1:
            run += (s + 1) << shift
            shift += 1
            continue
        if run:
            L += bytes([order[0]]) * run
            run = shift = 0
        ch = order.pop(s - 1)
        order.insert(0, ch)
        L.append(ch)
    if run:
        L += bytes([order[0]]) * run
    return bytes(L)

def ibwt(L, idx):
    n = len(L)
    if n == 0:
        return b''
    order = sorted(range(n), key=lambda i: (L[i], i))
    out = bytearray()
    p = order[idx]
    for _ in range(n):
        out.append(L[p])
        p = order[p]
    return bytes(out)

class EndsInsideRun(Exception):
    pass

def unrle1(rle):
    """undo the initial run-length coding; four equal bytes at the very end
    without a count byte raise EndsInsideRun"""
    out = bytearray()
    i, n = 0, len(rle)
    while i < n:
        c = rle[i]
        r = 1
        while r < 4 and i + r < n and rle[i + r] == c:
            r += 1
        i += r
        out += bytes([c]) * r
        if r == 4:
            if i >= n:
                raise EndsInsideRun()
            out += bytes([c]) * rle[i]
            i += 1
    return bytes(out)

# prefix code of the carrier: symbols 2..255 have the 8-bit codes 0x00..0xFD, RUNA, RUNB, symbol
# 256 and end-of-block the 9-bit codes 0x1FC..0x1FF (Kraft sum exactly 1).  Any bit string that
# never shows nine 1 bits at a code boundary is therefore the entropy-coded data of some block.
CARRIER_LENS = [9, 9] + [8] * 254 + [9, 9]

def spell(bitstr):
    """symbols of the carrier code whose codes concatenate to bitstr (padded with 0 bits)"""
    out = []
    i = 0
    s = bitstr + '0' * 16
    while i < len(bitstr):
        byte = int(s[i:i + 8], 2)
        if byte <= 0xFD:
            out.append(byte + 2)
            i += 8
        else:
            code = int(s[i:i + 9], 2)
            if code == 0x1FF:
                raise ValueError('nine 1 bits at a code boundary cannot be spelled')
            out.append({0x1FC: 0, 0x1FD: 1, 0x1FE: 256}[code])
            i += 9
    return out

def block_bitstring(block):
    """the bits of one block (magic .. last code), no stream header, no padding"""
    w = Bits()
    block.write(w, 'p')
    return format(w.v, '0%db' % w.n)

def carrier(plants, filler=3, shift9=0, salt=0):
    """A valid block whose entropy-coded data spells out, verbatim, the bit strings in
    `plants' (e.g. complete blocks from block_bitstring()), each preceded by `filler' 8-bit
    padding symbols; shift9 extra 9-bit symbols in front move everything by shift9 bits
    relative to the byte grid."""
    syms = [0] * 0
    x = salt * 7919 + 1
    def pad(k):
        nonlocal x
        for _ in range(k):
            x = (x * 1103515245 + 12345) & 0x7fffffff
            syms.append(2 + 0x80 + ((x >> 16) % 0x7e))
    for _ in range(shift9):
        syms.append(256)
    for bits in plants:
        pad(filler)
        for k in range(8):
            # nine 1 bits at a code boundary are the end-of-block code: move the boundaries by
            # putting k zero bits in front of the planted string
            try:
                syms.extend(spell('0' * k + bits))
                break
            except ValueError:
                if k == 7:
                    raise
    pad(2)
    for extra in range(8):
        try:
            return Block(raw_syms=list(syms), tables=[CARRIER_LENS, CARRIER_LENS])
        except EndsInsideRun:
            pad(1)
    raise ValueError('carrier block keeps ending inside a run')

def stream(blocks, level=9, stream_crc=None, header=True, eos=True, name='s'):
    w = Bits()
    return stream_into(w, blocks, level, stream_crc, header, eos, name).bytes()

def stream_into(w, blocks, level=9, stream_crc=None, header=True, eos=True, name='s'):
    if header:
        w.put(24, 0x425a68, name + '.BZh')
        w.put(8, 0x30 + level, name + '.level')
    comb = 0
    for i, b in enumerate(blocks):
        b.write(w, '%s.b%d' % (name, i))
        comb = (((comb << 1) | (comb >> 31)) & 0xffffffff) ^ b.crc_value
    if eos:
        w.put(48, EOS_MAGIC, name + '.eos')
        w.put(32, comb if stream_crc is None else stream_crc, name + '.scrc')
        w.pad()
    return w

def build(streams, trailing=b''):
    """streams: list of (blocks, level) -> (bytes, fields)"""
    w = Bits()
    for i, (blocks, level) in enumerate(streams):
        stream_into(w, blocks, level, name='s%d' % i)
    return w.bytes() + trailing, w.fields

# ---- mutation helpers -----------------------------------------------------

def flip(data, bit):
    b = bytearray(data)
    b[bit >> 3] ^= 0x80 >> (bit & 7)
    return bytes(b)

def all_bitflips(data):
    for i in range(len(data) * 8):
        yield ('flip', i), flip(data, i)

def all_truncations(data):
    for n in range(len(data)):
        yield ('trunc', n), data[:n]

MAGIC_BITS = format(BLOCK_MAGIC, '048b')

def magic_as_selector_codes():
    """The 48-bit block magic as a sequence of unary selector codes 0, 10, 110
    (it contains no 111); the last code may be left open: returns (codes, open)
    where open is the number of trailing 1 bits the next code must start with."""
    codes, run = [], 0
    for b in MAGIC_BITS:
        if b == '1':
            run += 1
            assert run < 3
        else:
            codes.append(run)
            run = 0
    return codes, run

def planted_selectors(prefix_bits, crc32_bits, min_total):
    """Selector codes (for >= 3 identical tables) whose bit string is:
    prefix_bits zero bits, the block magic, then crc32_bits (a 32-character
    0/1 string without '111'), then zeros up to at least min_total codes."""
    codes = [0] * prefix_bits
    mc, open1 = magic_as_selector_codes()
    codes += mc
    run = open1
    for b in crc32_bits:
        if b == '1':
            run += 1
            assert run < 3, 'three ones in a row cannot be selector codes for 3 tables'
        else:
            codes.append(run)
            run = 0
    codes.append(run)           # closes the open code with a 0 bit
    while len(codes) < min_total:
        codes.append(0)
    return codes
