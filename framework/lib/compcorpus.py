"""Shared enumeration for C01(b)/C02/C04(b)/C20(b): compress a family of inputs
with the whole program (canonical schedule), keep every output, decompress it
again with lbzip2, decode it with libbz2, inspect it bit by bit."""
import hashlib, itertools, json, os, pickle, subprocess, time, glob, bz2
from . import lbzx, bzref, inputs, common, build

def input_family(tier):
    """(name, bytes, [(level, mode)...])"""
    quick = tier == 'quick'
    out = []
    both = lambda lv: [(l, m) for l in lv for m in ('', '-u')]
    # 1: kinds corpus at level 1
    kinds = 'NECRZTF'
    seqs = [k for k in kinds] + [k + 's' for k in 'NEC']
    pairs = [a + b for a in kinds for b in kinds]
    if quick:
        pairs = ['NE', 'EN', 'EC', 'CE', 'ZR', 'RZ', 'EE', 'CC', 'TF', 'FN', 'ZEs', 'ECs']
    else:
        pairs += ['NEC', 'ECN', 'ZZZ', 'EEE', 'CRE', 'NNs', 'EEs', 'CCs', 'TFZs']
    for sp in [''] + seqs + pairs:
        out.append(('kinds:' + sp, inputs.shape(sp), both([1])))
    # 2: every level, inputs of 1.3 blocks
    for lv in ((1, 2, 5, 9) if quick else range(1, 10)):
        n = lv * 130000
        out.append(('level%d:N' % lv, inputs.kind('N', n, lv), both([lv])))
        if not quick or lv in (2, 9):
            out.append(('level%d:E' % lv, inputs.kind('E', n, lv), both([lv])))
            out.append(('level%d:T' % lv, inputs.kind('T', n, lv), both([lv])))
    # 3: runs meeting the end of the block
    for lv in ((1,) if quick else (1, 2, 9)):
        cap = lv * 100000
        filler = (b'xyz' * (cap // 3 + 2))
        for delta in range(0, 7):
            for r in (1, 2, 3, 4, 5, 6, 258, 259, 260, 261, 262):
                if quick and (delta + r) % 3 == 2:
                    continue
                pre = filler[:cap - delta]
                if pre and pre[-1] == ord('Q'):
                    pre = pre[:-1] + b'y'
                data = pre + b'Q' * r + b'tail-after-run' + b'Q' * 3
                out.append(('boundary:L%d d%d r%d' % (lv, delta, r), data, both([lv])))
    # 4: tiny inputs: alphabet sweep (one table + dummy table), length sweep (padding)
    for k in (range(1, 149) if not quick else list(range(1, 40)) + list(range(40, 149, 6))):
        out.append(('alpha%d' % k, bytes(range(k)), [(9, '')]))
    for n in range(1, 41):
        out.append(('len%d' % n, (b'abcdefg' * 8)[:n], [(9, ''), (1, '-u')] if n % 4 == 0 else [(9, '')]))
    for n in range(1, (8 if quick else 11)):
        for t in itertools.product(b'ab', repeat=n):
            if quick and n > 5 and t[0] != 97:
                continue
            out.append(('ab:' + bytes(t).decode(), bytes(t), [(9, '')]))
    # 5: larger structured inputs
    out.append(('fib 250k', inputs.fib_word(250000), both([1, 9]) if not quick else [(1, ''), (9, '-u')]))
    out.append(('period2 250k', b'ab' * 125000, [(1, ''), (1, '-u')]))
    out.append(('lcg 250k', inputs.lcg(250000, 4), [(1, ''), (2, '-u')]))
    if not quick:
        out.append(('tandem 2M L9', inputs.kind('T', 2000000), both([9])))
        out.append(('zeros 3M', bytes(3000000), both([1, 9])))
        # the repository's own fuzz-derived inputs, as fixed extra cases
        files = sorted(glob.glob(os.path.join(build.REPO, 'tests', 'suite', 'fuzz-*', '*.bz2')))
        for f in files[:1200]:
            try:
                d = bz2.decompress(open(f, 'rb').read())
            except Exception:
                continue
            if 0 < len(d) <= 300000:
                out.append(('repo:' + os.path.basename(f)[:12], d, [(9, '')]))
    return out

def run_all(tier, variant='fast', Ws=(1, 3), use_cache=True):
    key = hashlib.sha1(('%s|%s|%s|%s' % (build.repo_key(), tier, variant,
                        build._hash_files([__file__, os.path.join(build.FW, 'bzref', 'bzref.c'),
                                           os.path.join(build.FW, 'lbzx', 'vsched.c')]))).encode()).hexdigest()[:16]
    cpath = os.path.join(build.CACHE, 'compcorpus-%s.pickle' % key)
    fam = input_family(tier)
    if use_cache and os.path.exists(cpath) and time.time() - os.path.getmtime(cpath) < 1800:
        try:
            c = pickle.load(open(cpath, 'rb'))
            if c['n'] == len(fam):
                c['cached'] = True
                return c
        except Exception:
            pass
    od = common.scratch('cc')
    cases, meta = [], []
    for name, data, lms in fam:
        for (lv, mode) in lms:
            for W in Ws:
                if W != Ws[0] and len(data) < 50 and mode == '':
                    continue
                argv = ['lbzip2', '-n%d' % W, '-%d' % lv] + ([mode] if mode else [])
                # every other multi-worker run writes to an output that takes at most 4093 bytes per write()
                # (a pipe with a slow reader); the bytes written must be the same
                wf = 4093 if (W != Ws[0] and len(cases) % 2 == 0 and len(data) <= 400000) else 0
                cases.append({'argv': argv, 'stdin': data, 'save': True, 'wfrag': wf})
                meta.append({'name': name, 'level': lv, 'mode': mode, 'W': W, 'in_len': len(data),
                             'in_sha': hashlib.sha1(data).hexdigest()})
    res = lbzx.batch(variant, cases, outdir=od, timeout=300)
    outs = []
    for i, x in enumerate(res):
        p = os.path.join(od, '%d.out' % i)
        outs.append(open(p, 'rb').read() if os.path.exists(p) else b'')
    # decompress every output again with lbzip2 (other worker count)
    dcases = [{'argv': ['lbzip2', '-d', '-n%d' % (3 if m['W'] == 1 else 1)], 'stdin': o} for m, o in zip(meta, outs)]
    dres = lbzx.batch(variant, dcases, timeout=300)
    insp = bzref.inspect_batch(outs)
    # reference packing
    rp = build.tool('refpack', ['ref/refpack.c'])
    packs = {}
    fdir = common.scratch('ccin')
    for name, data, lms in fam:
        p = os.path.join(fdir, hashlib.sha1(data).hexdigest())
        open(p, 'wb').write(data)
        for (lv, mode) in lms:
            cap = lv * 100000
            r = subprocess.run([rp, p, str(cap), '0' if mode == '-u' else str(cap)], stdout=subprocess.PIPE)
            packs[(hashlib.sha1(data).hexdigest(), lv, mode)] = [tuple(int(v) for v in l.split()) for l in r.stdout.decode().split('\n') if l]
        os.unlink(p)
    lib = []
    inmap = {hashlib.sha1(d).hexdigest(): d for _, d, _ in fam}
    for m, o in zip(meta, outs):
        ok, dec = bzref.libbz2(o) if o else (False, None)
        lib.append(bool(ok and dec == inmap[m['in_sha']]))
    c = {'n': len(fam), 'meta': meta, 'res': res, 'dres': dres, 'insp': insp, 'packs': packs, 'libbz2_roundtrip': lib,
         'out_sha': [hashlib.sha1(o).hexdigest() for o in outs], 'out_len': [len(o) for o in outs],
         'in_hash': {m['in_sha']: (common.fnv64(inmap[m['in_sha']]), m['in_len']) for m in meta}}
    os.makedirs(build.CACHE, exist_ok=True)
    pickle.dump(c, open(cpath + '.tmp', 'wb'))
    os.replace(cpath + '.tmp', cpath)
    c['cached'] = False
    return c
