"""vcheck replay <file>: re-run one recorded violation without the explorer."""
import json, os, subprocess, sys, shlex
from . import build, common

def main(path):
    rec = json.load(open(path))
    print('property %s: %s' % (rec.get('property'), rec.get('what')))
    if rec.get('engine') == 'lbzx':
        exe = build.lbzx(rec.get('variant', 'fast'))
        cmd = shlex.split(rec['cmdline'])
        cmd[0] = exe
        if rec.get('stdin_hex') is not None and '--stdin' in cmd:
            d = common.scratch('replay')
            p = os.path.join(d, 'stdin')
            open(p, 'wb').write(bytes.fromhex(rec['stdin_hex']))
            cmd[cmd.index('--stdin') + 1] = p
        elif '--stdin' in cmd and not os.path.exists(cmd[cmd.index('--stdin') + 1]):
            print('input not stored in the replay file (too large); it was: %s' % rec.get('stdin_desc'))
            return 2
        from .lbzx import ENV
        print(' '.join(cmd))
        r = subprocess.run(cmd, env=ENV, stdout=subprocess.PIPE)
        out = r.stdout.decode(errors='replace')
        print(out.strip()[:1500])
        try:
            now = json.loads(out)
        except ValueError:
            return 2
        obs = rec.get('observed', '')
        # the recorded observation starts with kind(code); inv=<n> follows
        same = obs.startswith('%s(%s)' % (now.get('kind'), now.get('code'))) and ('inv=%s ' % now.get('inv')) in obs + ' '
        print('REPRODUCED: the recorded outcome occurs again on this tree' if same else
              'NOT REPRODUCED: this tree now ends with %s(%s) inv=%s' % (now.get('kind'), now.get('code'), now.get('inv')))
        return 1 if same else 0
    if rec.get('cmdline'):
        print(rec['cmdline'])
        return subprocess.call(rec['cmdline'], shell=True)
    print(json.dumps(rec, indent=1))
    return 0
