"""Python side of engine E3 (the independent reference decoder)."""
import json, os, struct, subprocess, bz2
from . import build, common

F_INCOMPLETE_USED, F_MISSING_RUNLEN, F_TRAILING, F_RAND, F_UNUSED_BAD, F_SURPLUS_SEL, F_ZIGZAG = 1, 2, 4, 8, 16, 32, 64

def exe():
    return build.tool('bzref', ['bzref/bzref.c'])

def batch(streams, workdir=None):
    """Verdict for each byte string: dict(ok, out_len, out_hash, flags, reason)."""
    wd = workdir or common.scratch('bzref')
    path = os.path.join(wd, 'b.%d.bin' % id(streams))
    with open(path, 'wb') as f:
        for s in streams:
            f.write(struct.pack('<I', len(s)))
            f.write(s)
    p = subprocess.run([exe(), 'batch', path], stdout=subprocess.PIPE, stderr=subprocess.PIPE)
    os.unlink(path)
    if p.returncode != 0:
        common.harness_error('bzref batch failed: ' + p.stderr.decode(errors='replace')[-500:])
    out = []
    for line in p.stdout.decode().split('\n'):
        if not line:
            continue
        f = line.split(' ', 4)
        out.append({'ok': f[0] == 'ok', 'out_len': int(f[1]), 'out_hash': f[2], 'flags': int(f[3], 16),
                    'reason': f[4] if f[0] != 'ok' and len(f) > 4 else ''})
    if len(out) != len(streams):
        common.harness_error('bzref batch: %d verdicts for %d streams' % (len(out), len(streams)))
    return out

def inspect_batch(streams, workdir=None):
    wd = workdir or common.scratch('bzref')
    path = os.path.join(wd, 'ib.%d.bin' % id(streams))
    with open(path, 'wb') as f:
        for s in streams:
            f.write(struct.pack('<I', len(s)))
            f.write(s)
    p = subprocess.run([exe(), 'inspect-batch', path], stdout=subprocess.PIPE, stderr=subprocess.PIPE)
    os.unlink(path)
    out = [json.loads(l) for l in p.stdout.decode().split('\n') if l]
    if len(out) != len(streams):
        common.harness_error('bzref inspect-batch: %d results for %d streams' % (len(out), len(streams)))
    return out

def decode(data, workdir=None):
    wd = workdir or common.scratch('bzref')
    p = os.path.join(wd, 'd.%d' % id(data))
    open(p, 'wb').write(data)
    r = subprocess.run([exe(), 'decode', p, p + '.out'], stdout=subprocess.PIPE)
    out = open(p + '.out', 'rb').read() if os.path.exists(p + '.out') else b''
    for q in (p, p + '.out'):
        os.path.exists(q) and os.unlink(q)
    f = r.stdout.decode().strip().split(' ', 4)
    return {'ok': f[0] == 'ok', 'out': out, 'flags': int(f[3], 16), 'reason': f[4] if f[0] != 'ok' and len(f) > 4 else ''}

def inspect(data, workdir=None):
    wd = workdir or common.scratch('bzref')
    p = os.path.join(wd, 'i.%d' % id(data))
    open(p, 'wb').write(data)
    r = subprocess.run([exe(), 'inspect', p], stdout=subprocess.PIPE)
    os.unlink(p)
    return json.loads(r.stdout.decode())

def libbz2(data):
    """(ok, bytes): libbz2 decodes each stream (python's BZ2Decompressor); the
    concatenation / trailing-data rule of C05 is applied here: after a complete
    stream, what follows is another stream iff it begins with BZh1..BZh9."""
    out = []
    first = True
    while True:
        if not data:
            return (not first), (b''.join(out) if not first else None)
        if not (len(data) >= 4 and data[:3] == b'BZh' and 0x31 <= data[3] <= 0x39):
            if first:
                return False, None
            return True, b''.join(out)          # trailing garbage ignored
        d = bz2.BZ2Decompressor()
        try:
            out.append(d.decompress(data))
        except (OSError, ValueError, EOFError):
            return False, None
        if not d.eof:
            return False, None
        data = d.unused_data
        first = False

def crosscheck(data, v):
    """Is the reference verdict v consistent with libbz2 where both are defined?
    Returns None if consistent / not comparable, else a description."""
    ok, out = libbz2(data)
    if v['ok']:
        if v['flags'] & (F_MISSING_RUNLEN | F_INCOMPLETE_USED):
            return None
        if not ok:
            return 'reference accepts, libbz2 rejects'
        if len(out) != v['out_len'] or common.fnv64(out) != v['out_hash']:
            return 'reference and libbz2 decode to different bytes'
        return None
    if ok:
        return 'reference rejects (%s), libbz2 accepts' % v['reason']
    return None
