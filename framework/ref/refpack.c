/* refpack.c -- reference model of C04: the greedy run-length packing rule,
 * written from the statement of the property, not from encode.c.
 *
 *   refpack FILE CAPACITY PIECE     (PIECE = 0: pack the whole input;
 *                                    else cut into PIECE-byte pieces first)
 * prints one line per block:  <rle_len> <crc32 of the input bytes> <input bytes>
 *
 * Rule: bytes are taken one by one; a run of equal bytes is written as up to
 * three copies, and a fourth copy is taken only if it *and* its count byte
 * still fit; once the fourth is in, the run swallows up to 255 more equal
 * bytes for free.  A block ends when the next byte (or fourth copy + count)
 * does not fit any more, or the piece ends.
 */
#include <stdint.h>
#include <stdio.h>
#include <stdlib.h>

static uint32_t tab[256];

int
main(int argc, char **argv)
{
  FILE *f;
  unsigned char *d;
  long n, cap, piece, base;
  uint32_t i, j, c;

  if (argc < 4)
    return 2;
  for (i = 0; i < 256; i++) {
    c = i << 24;
    for (j = 0; j < 8; j++)
      c = (c & 0x80000000u) ? (c << 1) ^ 0x04c11db7u : (c << 1);
    tab[i] = c;
  }
  f = fopen(argv[1], "rb");
  if (!f)
    return 2;
  fseek(f, 0, SEEK_END);
  n = ftell(f);
  fseek(f, 0, SEEK_SET);
  d = malloc(n + 1);
  if (fread(d, 1, n, f) != (size_t)n)
    return 2;
  cap = atol(argv[2]);
  piece = atol(argv[3]);
  if (piece == 0)
    piece = n ? n : 1;
  for (base = 0; base < n; base += piece) {
    long end = base + piece < n ? base + piece : n;
    long p = base;
    while (p < end) {
      long q = 0, start = p, k;
      uint32_t crc = 0xffffffffu;
      while (p < end && q < cap) {
        unsigned char ch = d[p];
        int r = 1;
        q++;
        p++;
        while (r < 3 && p < end && d[p] == ch && q < cap) {
          r++;
          q++;
          p++;
        }
        if (r == 3 && p < end && d[p] == ch) {
          if (q + 2 > cap)
            break;              /* fourth copy and its count do not fit */
          p++;
          q++;
          r = 4;
          while (r < 259 && p < end && d[p] == ch) {
            p++;
            r++;
          }
          q++;                  /* the count byte */
        }
      }
      for (k = start; k < p; k++)
        crc = (crc << 8) ^ tab[(crc >> 24) ^ d[k]];
      printf("%ld %u %ld\n", q, ~crc, p - start);
    }
  }
  return 0;
}
