/* vsched.h -- controlled world for lbzip2 (engine E1).  See DESIGN.md section 2.
 *
 * The lbzip2 sources are compiled with -Dpthread_mutex_lock=vs_mutex_lock etc.
 * (see framework/lib/build.py); this header is only used by vsched.c and
 * explore.c.  Nothing of lbzip2 includes it.
 */
#ifndef VSCHED_H
#define VSCHED_H

#include <stdint.h>
#include <stddef.h>

#define VS_MAXCP     60000  /* hard cap on recorded choice points / execution */
#define VS_DEFCP     6000   /* default horizon cap; a run that reaches it is re-run with VS_MAXCP before it counts as a livelock */
#define VS_MAXDEV    12
#define VS_MAXT      40

/* kinds of choice point */
enum { CP_SCHED = 0, CP_RENV = 1, CP_WENV = 2, CP_SIGPICK = 3, CP_SIGORDER = 4, CP_FENV = 5, CP_SENV = 6 };

/* outcome kinds */
enum {
  OC_NONE = 0,       /* child died without telling us (abort, sanitizer, segv) */
  OC_EXIT = 1,       /* _exit(code) */
  OC_SIGNAL = 2,     /* the signal model killed the process with signal `code' */
  OC_DEADLOCK = 3,   /* no enabled thread */
  OC_HORIZON = 4,    /* more than `horizon' choice points */
  OC_DIVERGE = 5,    /* replayed deviation did not fit (harness error) */
  OC_UNMODELLED = 6, /* situation outside the signal model (harness error) */
  OC_TIMEOUT = 7     /* wall clock limit of one execution (set by parent) */
};

struct vs_cp {
  uint8_t nalts;
  uint8_t chosen;
  uint8_t kind;
  uint8_t tid;
  uint8_t op;
  uint8_t self_enabled;
  uint8_t pad[2];
};

struct vs_dev { uint32_t idx; uint32_t alt; };

/* configuration of one execution, installed before lbzip2_main() runs */
struct vs_config {
  int policy;                    /* 0 P0, 1 P1, 2 P2; 3+r: strict priorities, r-th permutation of the first nprio threads */
  int nprio;
  unsigned demote;               /* strict priorities: number of priority-change points offered */
  int ndev;
  struct vs_dev dev[VS_MAXDEV];
  uint32_t horizon;
  unsigned renv;                 /* bit set of read answers offered: see RENV_* */
  unsigned wenv;                 /* bit set of write answers offered */
  unsigned sigs;                 /* external signals offered: bit0 SIGINT bit1 SIGTERM */
  unsigned fenv;                 /* file operations: bit0 offer errno failures, bit1 offer SIGKILL before/after */
  unsigned spurious;             /* offer spurious cond wake-ups (count) */
  unsigned senv;                 /* stderr: bit0 offer EPIPE (+SIGPIPE), bit1 offer EIO at every fflush(stderr) */
  uint64_t inherit_mask;         /* signals blocked in the mask inherited through exec() */
  size_t rfrag;                  /* >0: every read returns at most rfrag bytes */
  size_t wfrag;                  /* >0: every write takes at most wfrag bytes */
  int ign_sigpipe;               /* SIGPIPE/SIGXFSZ inherited as SIG_IGN */
  int env_fd_only;               /* 1: env deviations only on fds 0/1 */
  uint64_t heap_limit;           /* 0 = none; else inv_flags bit3 when peak exceeds */
  int verbose;                   /* trace every choice point to real stderr fd */
  int trace_fd;
};

/* written by the child, read by the explorer (MAP_SHARED) */
struct vs_record {
  volatile int outcome;
  volatile int code;
  volatile uint32_t ncp;
  volatile uint32_t preemptions;
  volatile uint32_t inv_flags;     /* bit0 work_units, bit1 in_slots, bit2 out_slots */
  volatile uint64_t heap_peak;
  volatile uint64_t heap_live_end;
  volatile uint64_t heap_limit_used;
  volatile uint32_t nthreads;
  volatile uint32_t nstate;        /* number of state hashes below */
  volatile uint32_t ev_count[16];  /* H2 task events: per task index begin counts */
  char note[512];                  /* deadlock description etc. */
  struct vs_config cfg;            /* request for the in-process executor */
  volatile uint32_t req_len;       /* batch mode: packed argv/env/chdir of this case */
  char req[1 << 16];
  struct vs_cp cp[VS_MAXCP];
  uint64_t state[VS_MAXCP];        /* hash of sampled scheduler state at each CP_SCHED */
  uint32_t trace_n;
  uint8_t trace[1 << 16];           /* optional H2 event trace (bytes) */
};

#define RENV_SHORT1 1u
#define RENV_HALF   2u
#define RENV_EIO    4u
#define WENV_SHORT1 1u
#define WENV_HALF   2u
#define WENV_EIO    4u
#define WENV_ENOSPC 8u
#define WENV_EPIPE  16u
#define WENV_EFBIG  32u

extern struct vs_config vs_cfg;
extern struct vs_record *vs_rec;

void vs_begin(void);              /* call in the child before lbzip2_main */
void vs_inproc_init(int argc, char **argv);   /* executor process: once */
void vs_inproc_run(void);                     /* executor: one execution with vs_cfg */
void vs_inproc_set_args(int argc, char **argv);
int lbzip2_main(int argc, char **argv);

#endif
