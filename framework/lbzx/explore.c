/* explore.c -- stateless deviation-bounded explorer and single-run replayer
 * for lbzip2 under vsched (engines E1/E2).
 *
 *   lbzx run     [opts] -- lbzip2-args...     one execution, JSON on stdout
 *   lbzx explore [opts] -- lbzip2-args...     all executions with <= bound
 *                                             deviations from each policy
 * opts:
 *   --stdin FILE        bytes served on descriptor 0 (default: empty)
 *   --policy P0|P1|P2|all
 *   --dev i.a,i.a,...   deviations (run mode)
 *   --bound D  --jobs N  --deadline SECONDS  --timeout SECONDS (per execution)
 *   --renv short1,half,eio     --wenv short1,half,eio,enospc,epipe,efbig
 *   --sigs int,term     --spurious N     --rfrag N   --wfrag N
 *   --ign-sigpipe       --env-all-fds    --setenv K=V (repeatable)
 *   --horizon N         --heap-limit BYTES
 *   --save-stdout F --save-stderr F --trace      (run mode)
 *   --argv0 NAME        --chdir DIR
 */
#define _GNU_SOURCE
#include <errno.h>
#include <dirent.h>
#include <fcntl.h>
#include <poll.h>
#include <sched.h>
#include <signal.h>
#include <stdio.h>
#include <stdlib.h>
#include <string.h>
#include <sys/mman.h>
#include <sys/stat.h>
#include <sys/wait.h>
#include <time.h>
#include <unistd.h>

#include "vsched.h"

#define MAXCLS 2048
#define STATE_BITS 22
#define STATE_SIZE (1u << STATE_BITS)

struct xclass {
  int kind, code;
  uint64_t out_hash, err_hash;
  uint64_t out_len, err_len;
  unsigned inv, sanitizer;
  uint64_t fs_hash;
  /* */
  uint64_t count;
  int policy, ndev;
  struct vs_dev dev[VS_MAXDEV];
  uint32_t ncp;
  char err_head[240];
  char note[240];
  char fs_desc[700];
};

struct xitem { int policy; uint32_t idx, alt; };

struct xshared {
  volatile int lock;
  volatile int stop;
  int ncls;
  struct xclass cls[MAXCLS];
  uint64_t executions, cp_total, exec_by_depth[VS_MAXDEV + 1];
  uint64_t max_cp, max_preempt, heap_peak_max, heap_limit_used, nstates, states_capped;
  uint64_t cp_by_kind[8];
  uint64_t ev_total[16];
  uint64_t ev_max[16];            /* largest count in one execution */
  uint64_t scan_found_max;        /* largest x-scan-candidate + x-scan-known in one execution */
  volatile uint64_t next_item;
  uint64_t nitems;
  uint64_t table[STATE_SIZE];
};

extern const char *const vs_event_names[16];
static struct xshared *X;
static struct xitem *items;

static struct vs_config base_cfg;
static char **l_argv;
static int l_argc;
static unsigned char *in_data;
static size_t in_len;
static int fd_in = -1, fd_out = -1, fd_err = -1, fd_report = 1;
static double exec_timeout = 60.0;
static double deadline_at;
static char *setenvs[32];
static int nsetenv;
static const char *chdir_to;
static int bound = 0, jobs = 1;
static int use_fork = 0;          /* 1: one forked process per execution */
static pid_t exe_pid = -1;        /* in-process executor of this worker */
static int exe_req = -1, exe_resp = -1;
static int cpu_base = 0;
static int pin_cpu = -1;          /* executor and its serialised threads share one CPU */

static double
now(void)
{
  struct timespec ts;
  clock_gettime(CLOCK_MONOTONIC, &ts);
  return ts.tv_sec + ts.tv_nsec / 1e9;
}

static void
xlock(void)
{
  while (__atomic_exchange_n(&X->lock, 1, __ATOMIC_ACQUIRE))
    while (X->lock)
      __builtin_ia32_pause();
}

static void
xunlock(void)
{
  __atomic_store_n(&X->lock, 0, __ATOMIC_RELEASE);
}

static uint64_t
fnv(const unsigned char *p, size_t n)
{
  uint64_t h = 1469598103934665603ull;
  while (n--) {
    h ^= *p++;
    h *= 1099511628211ull;
  }
  return h;
}

static int
make_memfd(const char *name)
{
  int fd = memfd_create(name, 0);
  if (fd < 0) {
    perror("memfd_create");
    exit(2);
  }
  return fd;
}

static void
setup_fds(void)
{
  size_t off = 0;
  fd_report = dup(1);
  fd_in = make_memfd("lbzx-in");
  fd_out = make_memfd("lbzx-out");
  fd_err = make_memfd("lbzx-err");
  while (off < in_len) {
    ssize_t w = write(fd_in, in_data + off, in_len - off);
    if (w <= 0) {
      perror("write memfd");
      exit(2);
    }
    off += w;
  }
}

static unsigned char *
slurp_fd(int fd, size_t *len)
{
  struct stat st;
  unsigned char *b;
  size_t off = 0;
  fstat(fd, &st);
  b = malloc(st.st_size + 1);
  while (off < (size_t)st.st_size) {
    ssize_t r = pread(fd, b + off, st.st_size - off, off);
    if (r <= 0)
      break;
    off += r;
  }
  *len = off;
  return b;
}

struct result {
  int kind, code;
  uint64_t out_hash, err_hash, out_len, err_len;
  unsigned sanitizer;
  char err_head[240];
  uint64_t fs_hash;
  char fs_desc[700];
};

/* ---- file-system fixture: template directory copied before, described after ---- */

static const char *fs_template, *fs_work;
static time_t fs_epoch;

/* every worker process (and the parent) works in its own subdirectory */
static void
fs_private(const char *tag)
{
  static char path[4096];
  static const char *base;
  if (!fs_work)
    return;
  if (!base)
    base = fs_work;
  snprintf(path, sizeof path, "%s/%s", base, tag);
  mkdir(path, 0700);
  fs_work = path;
  chdir_to = path;
}

static int
name_cmp(const void *a, const void *b)
{
  return strcmp(*(char *const *)a, *(char *const *)b);
}

static int
list_dir(const char *dir, char ***names)
{
  DIR *d = opendir(dir);
  struct dirent *de;
  int n = 0, cap = 0;
  *names = NULL;
  if (!d)
    return 0;
  while ((de = readdir(d)) != NULL) {
    if (!strcmp(de->d_name, ".") || !strcmp(de->d_name, ".."))
      continue;
    if (n == cap) {
      cap = cap ? cap * 2 : 16;
      *names = realloc(*names, cap * sizeof **names);
    }
    (*names)[n++] = strdup(de->d_name);
  }
  closedir(d);
  qsort(*names, n, sizeof **names, name_cmp);
  return n;
}

static void
wipe_dir(const char *dir)
{
  char **names, path[4096];
  int n = list_dir(dir, &names), i;
  for (i = 0; i < n; i++) {
    struct stat st;
    snprintf(path, sizeof path, "%s/%s", dir, names[i]);
    if (lstat(path, &st) == 0 && S_ISDIR(st.st_mode)) {
      chmod(path, 0700);
      wipe_dir(path);
      rmdir(path);
    }
    else
      unlink(path);
    free(names[i]);
  }
  free(names);
}

static void
copy_tree(const char *from, const char *to)
{
  char **names, src[4096], dst[4096];
  int n = list_dir(from, &names), i;
  static struct { ino_t ino; char path[512]; } links[32];
  static int nlinks;
  if (!strcmp(from, fs_template))
    nlinks = 0;
  for (i = 0; i < n; i++) {
    struct stat st;
    struct timespec ts[2];
    snprintf(src, sizeof src, "%s/%s", from, names[i]);
    snprintf(dst, sizeof dst, "%s/%s", to, names[i]);
    free(names[i]);
    if (lstat(src, &st) != 0)
      continue;
    ts[0] = st.st_atim;
    ts[1] = st.st_mtim;
    if (S_ISLNK(st.st_mode)) {
      char tgt[1024];
      ssize_t k = readlink(src, tgt, sizeof tgt - 1);
      if (k >= 0) {
        tgt[k] = 0;
        if (symlink(tgt, dst)) { }
      }
    }
    else if (S_ISDIR(st.st_mode)) {
      mkdir(dst, 0700);
      copy_tree(src, dst);
      chmod(dst, st.st_mode & 07777);
      utimensat(AT_FDCWD, dst, ts, 0);
    }
    else if (S_ISREG(st.st_mode)) {
      int j, done = 0;
      if (st.st_nlink > 1) {
        for (j = 0; j < nlinks; j++)
          if (links[j].ino == st.st_ino) {
            if (link(links[j].path, dst)) { }
            done = 1;
          }
        if (!done && nlinks < 32) {
          links[nlinks].ino = st.st_ino;
          snprintf(links[nlinks].path, sizeof links[nlinks].path, "%s", dst);
          nlinks++;
        }
      }
      if (!done) {
        int in = open(src, O_RDONLY), out = open(dst, O_WRONLY | O_CREAT | O_TRUNC, 0600);
        char buf[65536];
        ssize_t k;
        while (in >= 0 && out >= 0 && (k = read(in, buf, sizeof buf)) > 0)
          if (write(out, buf, k) != k)
            break;
        if (in >= 0) close(in);
        if (out >= 0) {
          fchmod(out, st.st_mode & 07777);
          futimens(out, ts);
          close(out);
        }
      }
    }
  }
  free(names);
}

static void
fs_reset(void)
{
  if (!fs_work)
    return;
  wipe_dir(fs_work);
  if (fs_template)
    copy_tree(fs_template, fs_work);
}

static void
describe_tree(const char *dir, const char *rel, char *out, size_t cap, size_t *len, uint64_t *h)
{
  char **names, path[4096], relp[1024], line[1400];
  int n = list_dir(dir, &names), i;
  for (i = 0; i < n; i++) {
    struct stat st;
    uint64_t ch = 0;
    int k;
    snprintf(path, sizeof path, "%s/%s", dir, names[i]);
    snprintf(relp, sizeof relp, "%s%s", rel, names[i]);
    free(names[i]);
    if (lstat(path, &st) != 0)
      continue;
    if (S_ISREG(st.st_mode)) {
      int fd = open(path, O_RDONLY);
      ch = 1469598103934665603ull;
      if (fd >= 0) {
        unsigned char buf[65536];
        ssize_t r;
        while ((r = read(fd, buf, sizeof buf)) > 0) {
          ssize_t q;
          for (q = 0; q < r; q++) { ch ^= buf[q]; ch *= 1099511628211ull; }
        }
        close(fd);
      }
      else
        ch = 0;
    }
    if (st.st_mtim.tv_sec >= fs_epoch)
      /* written during this run: the clock value itself is not an observation */
      k = snprintf(line, sizeof line, "%s|%c|%o|%u|%lld|now|%016llx;", relp,
                   S_ISREG(st.st_mode) ? 'f' : S_ISDIR(st.st_mode) ? 'd' : S_ISLNK(st.st_mode) ? 'l' : '?',
                   (unsigned)(st.st_mode & 07777), (unsigned)st.st_nlink, (long long)st.st_size, (unsigned long long)ch);
    else
      k = snprintf(line, sizeof line, "%s|%c|%o|%u|%lld|%lld.%09ld|%016llx;", relp,
                   S_ISREG(st.st_mode) ? 'f' : S_ISDIR(st.st_mode) ? 'd' : S_ISLNK(st.st_mode) ? 'l' : '?',
                   (unsigned)(st.st_mode & 07777), (unsigned)st.st_nlink, (long long)st.st_size,
                   (long long)st.st_mtim.tv_sec, (long)st.st_mtim.tv_nsec, (unsigned long long)ch);
    {
      int q;
      for (q = 0; q < k; q++) { *h ^= (unsigned char)line[q]; *h *= 1099511628211ull; }
    }
    if (*len + k < cap) {
      memcpy(out + *len, line, k);
      *len += k;
      out[*len] = 0;
    }
    if (S_ISDIR(st.st_mode)) {
      char sub[1024];
      snprintf(sub, sizeof sub, "%s/", relp);
      describe_tree(path, sub, out, cap, len, h);
    }
  }
  free(names);
}

static void
fs_describe(struct result *r)
{
  size_t len = 0;
  r->fs_hash = 0;
  r->fs_desc[0] = 0;
  if (!fs_work)
    return;
  r->fs_hash = 1469598103934665603ull;
  describe_tree(fs_work, "", r->fs_desc, sizeof r->fs_desc - 1, &len, &r->fs_hash);
}

/* ---- batch mode: argv, environment and directory differ per case ---------- */

static char *prev_env[64];
static int nprev_env;
static char *case_argv[256];
static char home_dir[4096];

static void
batch_install_case(void)
{
  const char *p = vs_rec->req;
  uint32_t n, i;
  for (i = 0; i < (uint32_t)nprev_env; i++) {
    unsetenv(prev_env[i]);
    free(prev_env[i]);
  }
  nprev_env = 0;
  memcpy(&n, p, 4); p += 4;
  for (i = 0; i < n && i < 255; i++) {
    case_argv[i] = (char *)p;
    p += strlen(p) + 1;
  }
  case_argv[i] = NULL;
  vs_inproc_set_args((int)i, case_argv);
  memcpy(&n, p, 4); p += 4;
  for (i = 0; i < n; i++) {
    const char *eq = strchr(p, '=');
    if (eq && nprev_env < 64) {
      char *name = strndup(p, eq - p);
      setenv(name, eq + 1, 1);
      prev_env[nprev_env++] = name;
    }
    p += strlen(p) + 1;
  }
  if (*p) {
    if (chdir(p) != 0)
      _exit(249);
  }
  else if (home_dir[0] && chdir(home_dir) != 0)
    _exit(249);
}

static void
executor_spawn(void)
{
  int rq[2], rs[2];
  if (pipe(rq) != 0 || pipe(rs) != 0) {
    perror("pipe");
    exit(2);
  }
  exe_pid = fork();
  if (exe_pid < 0) {
    perror("fork");
    exit(2);
  }
  if (exe_pid == 0) {
    int i;
    char c;
    close(rq[1]);
    close(rs[0]);
    dup2(fd_in, 0);
    dup2(fd_out, 1);
    dup2(fd_err, 2);
    for (i = 0; i < nsetenv; i++)
      putenv(setenvs[i]);
    if (chdir_to && chdir(chdir_to) != 0)
      _exit(249);
    if (pin_cpu >= 0 && !getenv("VS_NOPIN")) {
      /* the threads of an execution never run concurrently: keeping them on
         one CPU turns every hand-off into a local context switch */
      cpu_set_t cs;
      CPU_ZERO(&cs);
      CPU_SET(pin_cpu, &cs);
      sched_setaffinity(0, sizeof cs, &cs);
    }
    vs_inproc_init(l_argc, l_argv);
    if (!getcwd(home_dir, sizeof home_dir))
      home_dir[0] = 0;
    while (read(rq[0], &c, 1) == 1) {
      vs_cfg = vs_rec->cfg;
      if (vs_rec->req_len)
        batch_install_case();
      vs_inproc_run();
      if (write(rs[1], "d", 1) != 1)
        break;
    }
    _exit(0);
  }
  close(rq[0]);
  close(rs[1]);
  exe_req = rq[1];
  exe_resp = rs[0];
}

static void
executor_reap(int *st)
{
  close(exe_req);
  close(exe_resp);
  waitpid(exe_pid, st, 0);
  exe_pid = -1;
}

static void run_exec_fork(const struct vs_config *cfg, struct result *r);
static void collect_io(struct result *r);

static void
reset_record(void)
{
  vs_rec->outcome = OC_NONE;
  vs_rec->code = 0;
  vs_rec->ncp = 0;
  vs_rec->preemptions = 0;
  vs_rec->inv_flags = 0;
  vs_rec->heap_peak = 0;
  vs_rec->heap_limit_used = 0;
  vs_rec->nthreads = 0;
  vs_rec->note[0] = 0;
  vs_rec->trace_n = 0;
  memset((void *)vs_rec->ev_count, 0, sizeof vs_rec->ev_count);

  lseek(fd_in, 0, SEEK_SET);
  if (ftruncate(fd_out, 0) || ftruncate(fd_err, 0)) { }
  lseek(fd_out, 0, SEEK_SET);
  lseek(fd_err, 0, SEEK_SET);
  fs_reset();
}

/* run one execution; vs_rec holds the record afterwards */
static void
run_exec(const struct vs_config *cfg, struct result *r, int keep_io)
{
  struct pollfd p;
  int st = 0;
  char c;

  (void)keep_io;
  if (use_fork) {
    run_exec_fork(cfg, r);
    return;
  }
  reset_record();
  if (exe_pid < 0)
    executor_spawn();
  vs_rec->cfg = *cfg;
  if (write(exe_req, "r", 1) != 1) {
    /* executor already gone */
  }
  p.fd = exe_resp;
  p.events = POLLIN;
  if (poll(&p, 1, (int)(exec_timeout * 1000)) == 0) {
    kill(exe_pid, SIGKILL);
    executor_reap(&st);
    r->kind = OC_TIMEOUT;
    r->code = 0;
  }
  else if (read(exe_resp, &c, 1) == 1) {
    r->kind = vs_rec->outcome;
    r->code = vs_rec->code;
    if (r->kind == OC_NONE) { r->kind = 22; r->code = 0; }
  }
  else {
    /* the executor died inside this execution */
    executor_reap(&st);
    if (WIFSIGNALED(st)) { r->kind = 20; r->code = WTERMSIG(st); }
    else { r->kind = 21; r->code = WEXITSTATUS(st); }
  }
  collect_io(r);
}

static void
run_exec_fork(const struct vs_config *cfg, struct result *r)
{
  int pfd[2], st = 0;
  pid_t pid;
  struct pollfd p;

  reset_record();

  if (pipe(pfd) != 0) {
    perror("pipe");
    exit(2);
  }
  pid = fork();
  if (pid < 0) {
    perror("fork");
    exit(2);
  }
  if (pid == 0) {
    int i;
    char **av;
    close(pfd[0]);
    dup2(fd_in, 0);
    dup2(fd_out, 1);
    dup2(fd_err, 2);
    vs_cfg = *cfg;
    for (i = 0; i < nsetenv; i++)
      putenv(setenvs[i]);
    if (chdir_to && chdir(chdir_to) != 0)
      _exit(249);
    av = malloc((l_argc + 1) * sizeof *av);
    for (i = 0; i < l_argc; i++)
      av[i] = strdup(l_argv[i]);
    av[l_argc] = NULL;
    vs_begin();
    _exit(lbzip2_main(l_argc, av));
  }
  close(pfd[1]);
  p.fd = pfd[0];
  p.events = POLLIN;
  if (poll(&p, 1, (int)(exec_timeout * 1000)) == 0) {
    kill(pid, SIGKILL);
    waitpid(pid, &st, 0);
    close(pfd[0]);
    r->kind = OC_TIMEOUT;
    r->code = 0;
  }
  else {
    close(pfd[0]);
    waitpid(pid, &st, 0);
    r->kind = vs_rec->outcome;
    r->code = vs_rec->code;
    if (r->kind == OC_NONE) {
      /* the child ended without passing through the model */
      if (WIFSIGNALED(st)) { r->kind = 20; r->code = WTERMSIG(st); }      /* crash */
      else { r->kind = 21; r->code = WEXITSTATUS(st); }                   /* raw exit */
    }
    else if (r->kind == OC_EXIT && (!WIFEXITED(st) || WEXITSTATUS(st) != r->code)) {
      r->kind = 22;             /* inconsistent */
      r->code = st;
    }
  }
  collect_io(r);
}

static void
collect_io(struct result *r)
{
  unsigned char *b;
  size_t n;

  fs_describe(r);

  b = slurp_fd(fd_out, &n);
  r->out_len = n;
  r->out_hash = fnv(b, n);
  free(b);
  b = slurp_fd(fd_err, &n);
  r->err_len = n;
  b[n] = 0;
  r->sanitizer = (strstr((char *)b, "Sanitizer") != NULL || strstr((char *)b, "runtime error:") != NULL);
  r->err_hash = r->sanitizer ? 0 : fnv(b, n);
  if (r->sanitizer)
    r->err_len = 0;             /* reports carry pids and addresses */
  {
    size_t k = n < sizeof r->err_head - 1 ? n : sizeof r->err_head - 1;
    if (r->sanitizer) {
      /* keep the line that names the error */
      char *e = strstr((char *)b, "ERROR:");
      if (!e) e = strstr((char *)b, "WARNING:");
      if (!e) e = strstr((char *)b, "runtime error:");
      if (e) {
        k = strcspn(e, "\n");
        if (k > sizeof r->err_head - 1) k = sizeof r->err_head - 1;
        memcpy(r->err_head, e, k);
        r->err_head[k] = 0;
        e = strstr(r->err_head, " (pid=");
        if (e) { *e = 0; k = strlen(r->err_head); }
      }
      else
        memcpy(r->err_head, b, k);
    }
    else
      memcpy(r->err_head, b, k);
    r->err_head[k] = 0;
  }
  free(b);
}

static void
state_insert(uint64_t h)
{
  uint32_t i, probes = 0;
  if (h == 0)
    h = 1;
  i = (uint32_t)(h >> 17) & (STATE_SIZE - 1);
  for (;;) {
    uint64_t cur = __atomic_load_n(&X->table[i], __ATOMIC_RELAXED);
    if (cur == h)
      return;
    if (cur == 0) {
      if (X->nstates > STATE_SIZE / 2) {
        X->states_capped = 1;
        return;
      }
      if (__atomic_compare_exchange_n(&X->table[i], &cur, h, 0, __ATOMIC_RELAXED,
                                      __ATOMIC_RELAXED)) {
        __atomic_add_fetch(&X->nstates, 1, __ATOMIC_RELAXED);
        return;
      }
      if (cur == h)
        return;
    }
    i = (i + 1) & (STATE_SIZE - 1);
    if (++probes > 4096) {
      X->states_capped = 1;
      return;
    }
  }
}

static void
account(const struct vs_config *cfg, const struct result *r)
{
  uint32_t i, ncp = vs_rec->ncp;
  int c;

  for (i = 0; i < ncp; i++)
    if (vs_rec->cp[i].kind == CP_SCHED)
      state_insert(vs_rec->state[i]);

  xlock();
  X->executions++;
  X->exec_by_depth[cfg->ndev]++;
  X->cp_total += ncp;
  for (i = 0; i < ncp; i++)
    X->cp_by_kind[vs_rec->cp[i].kind & 7]++;
  for (i = 0; i < 16; i++) {
    X->ev_total[i] += vs_rec->ev_count[i];
    if (vs_rec->ev_count[i] > X->ev_max[i]) X->ev_max[i] = vs_rec->ev_count[i];
  }
  if ((uint64_t)vs_rec->ev_count[8] + vs_rec->ev_count[9] > X->scan_found_max)
    X->scan_found_max = (uint64_t)vs_rec->ev_count[8] + vs_rec->ev_count[9];
  if (ncp > X->max_cp) X->max_cp = ncp;
  if (vs_rec->preemptions > X->max_preempt) X->max_preempt = vs_rec->preemptions;
  if (vs_rec->heap_peak > X->heap_peak_max) X->heap_peak_max = vs_rec->heap_peak;
  if (vs_rec->heap_limit_used > X->heap_limit_used) X->heap_limit_used = vs_rec->heap_limit_used;
  for (c = 0; c < X->ncls; c++) {
    struct xclass *k = &X->cls[c];
    if (k->kind == r->kind && k->code == r->code && k->out_hash == r->out_hash &&
        k->out_len == r->out_len && k->err_hash == r->err_hash && k->err_len == r->err_len &&
        k->inv == vs_rec->inv_flags && k->sanitizer == r->sanitizer && k->fs_hash == r->fs_hash)
      break;
  }
  if (c == X->ncls && X->ncls < MAXCLS) {
    struct xclass *k = &X->cls[X->ncls++];
    memset(k, 0, sizeof *k);
    k->kind = r->kind; k->code = r->code;
    k->out_hash = r->out_hash; k->out_len = r->out_len;
    k->err_hash = r->err_hash; k->err_len = r->err_len;
    k->inv = vs_rec->inv_flags; k->sanitizer = r->sanitizer;
    k->fs_hash = r->fs_hash;
    memcpy(k->fs_desc, r->fs_desc, sizeof k->fs_desc);
    k->policy = cfg->policy; k->ndev = cfg->ndev;
    memcpy(k->dev, cfg->dev, sizeof k->dev);
    k->ncp = ncp;
    memcpy(k->err_head, r->err_head, sizeof k->err_head);
    memcpy(k->note, vs_rec->note, sizeof k->note - 1);
  }
  if (c < MAXCLS) {
    struct xclass *k = &X->cls[c];
    k->count++;
    /* keep the witness with the fewest deviations */
    if (cfg->ndev < k->ndev) {
      k->policy = cfg->policy; k->ndev = cfg->ndev;
      memcpy(k->dev, cfg->dev, sizeof k->dev);
      k->ncp = ncp;
    }
  }
  xunlock();
}

static void
dfs(struct vs_config *cfg)
{
  struct result r;
  uint32_t ncp, i, start;
  uint8_t *nalts;
  int nd = cfg->ndev;

  if (X->stop)
    return;
  if (deadline_at > 0 && now() > deadline_at) {
    X->stop = 1;
    return;
  }
  run_exec(cfg, &r, 0);
  account(cfg, &r);
  if (nd >= bound)
    return;
  if (r.kind == OC_DIVERGE || r.kind == OC_TIMEOUT)
    return;
  ncp = vs_rec->ncp;
  nalts = malloc(ncp + 1);
  for (i = 0; i < ncp; i++)
    nalts[i] = vs_rec->cp[i].nalts;
  start = nd ? cfg->dev[nd - 1].idx + 1 : 0;
  for (i = start; i < ncp && !X->stop; i++) {
    uint32_t a;
    for (a = 1; a < nalts[i] && !X->stop; a++) {
      cfg->ndev = nd + 1;
      cfg->dev[nd].idx = i;
      cfg->dev[nd].alt = a;
      dfs(cfg);
    }
  }
  cfg->ndev = nd;
  free(nalts);
}

static const char *
kindname(int k)
{
  switch (k) {
  case OC_EXIT: return "exit";
  case OC_SIGNAL: return "signal";
  case OC_DEADLOCK: return "deadlock";
  case OC_HORIZON: return "horizon";
  case OC_DIVERGE: return "diverge";
  case OC_UNMODELLED: return "unmodelled";
  case OC_TIMEOUT: return "timeout";
  case 20: return "crash";
  case 21: return "rawexit";
  case 22: return "inconsistent";
  }
  return "none";
}

static void
json_str(FILE *f, const char *s)
{
  fputc('"', f);
  for (; *s; s++) {
    unsigned char c = *s;
    if (c == '"' || c == '\\') fprintf(f, "\\%c", c);
    else if (c == '\n') fputs("\\n", f);
    else if (c < 32 || c > 126) fprintf(f, "\\u%04x", c);
    else fputc(c, f);
  }
  fputc('"', f);
}

static void
json_devs(FILE *f, const struct vs_dev *d, int n)
{
  int i;
  fputc('[', f);
  for (i = 0; i < n; i++)
    fprintf(f, "%s[%u,%u]", i ? "," : "", d[i].idx, d[i].alt);
  fputc(']', f);
}

static unsigned
parse_list(const char *s, const char *const *names, const unsigned *bits)
{
  unsigned m = 0;
  char *dup = strdup(s), *tok;
  for (tok = strtok(dup, ","); tok; tok = strtok(NULL, ",")) {
    int i, ok = 0;
    for (i = 0; names[i]; i++)
      if (!strcmp(tok, names[i])) { m |= bits[i]; ok = 1; }
    if (!ok) {
      fprintf(stderr, "lbzx: unknown token %s\n", tok);
      exit(2);
    }
  }
  free(dup);
  return m;
}

static void
print_trace(FILE *f)
{
  uint32_t i;
  fputs("\"cps\":[", f);
  for (i = 0; i < vs_rec->ncp; i++)
    fprintf(f, "%s[%u,%u,%u,%u,%u]", i ? "," : "", vs_rec->cp[i].kind, vs_rec->cp[i].tid,
            vs_rec->cp[i].op, vs_rec->cp[i].nalts, vs_rec->cp[i].chosen);
  fputs("]", f);
}

int
main(int argc, char **argv)
{
  static const char *const rn[] = { "short1", "half", "eio", NULL };
  static const unsigned rb[] = { RENV_SHORT1, RENV_HALF, RENV_EIO };
  static const char *const wn[] = { "short1", "half", "eio", "enospc", "epipe", "efbig", NULL };
  static const unsigned wb[] = { WENV_SHORT1, WENV_HALF, WENV_EIO, WENV_ENOSPC, WENV_EPIPE, WENV_EFBIG };
  static const char *const sn[] = { "int", "term", NULL };
  static const unsigned sb[] = { 1, 2 };
  const char *cases_file = NULL, *outdir = NULL;
  const char *mode, *stdin_file = NULL, *save_out = NULL, *save_err = NULL, *argv0 = "lbzip2";
  static int policies[5100];
  int npol = 0, i, trace = 0, want_cps = 0;
  double deadline = 0, t0 = now();
  uint32_t horizon = 0;
  FILE *out;

  if (argc < 2) {
    fprintf(stderr, "usage: lbzx run|explore [opts] -- lbzip2 args\n");
    return 2;
  }
  mode = argv[1];
  memset(&base_cfg, 0, sizeof base_cfg);
  base_cfg.env_fd_only = 1;
  for (i = 2; i < argc; i++) {
    const char *a = argv[i];
#define ARG() (i + 1 < argc ? argv[++i] : (fprintf(stderr, "lbzx: %s needs a value\n", a), exit(2), ""))
    if (!strcmp(a, "--")) { i++; break; }
    else if (!strcmp(a, "--stdin")) stdin_file = ARG();
    else if (!strcmp(a, "--policy")) {
      const char *v = ARG();
      if (!strcmp(v, "all")) { policies[0] = 0; policies[1] = 1; policies[2] = 2; npol = 3; }
      else {
        char *d = strdup(v), *tok;
        for (tok = strtok(d, ","); tok; tok = strtok(NULL, ","))
          if (tok[0] == 'P' && tok[1] >= '0' && tok[1] <= '9' && npol < 5100) policies[npol++] = atoi(tok + 1);
          else if (!strncmp(tok, "prio:", 5)) {
            /* every strict-priority scheduler over the first K threads: policies 3 .. 3+K!-1 */
            int K = atoi(tok + 5), f = 1, q;
            if (K < 1 || K > 7) { fprintf(stderr, "lbzx: prio:K needs 1 <= K <= 7\n"); return 2; }
            for (q = 2; q <= K; q++) f *= q;
            base_cfg.nprio = K;
            for (q = 0; q < f && npol < 5100; q++) policies[npol++] = 3 + q;
          }
      }
    }
    else if (!strcmp(a, "--dev")) {
      char *d = strdup(ARG()), *tok;
      for (tok = strtok(d, ","); tok; tok = strtok(NULL, ",")) {
        unsigned x, y;
        if (sscanf(tok, "%u.%u", &x, &y) == 2 && base_cfg.ndev < VS_MAXDEV) {
          base_cfg.dev[base_cfg.ndev].idx = x;
          base_cfg.dev[base_cfg.ndev].alt = y;
          base_cfg.ndev++;
        }
      }
    }
    else if (!strcmp(a, "--nprio")) base_cfg.nprio = atoi(ARG());
    else if (!strcmp(a, "--demote")) base_cfg.demote = atoi(ARG());
    else if (!strcmp(a, "--bound")) bound = atoi(ARG());
    else if (!strcmp(a, "--jobs")) jobs = atoi(ARG());
    else if (!strcmp(a, "--deadline")) deadline = atof(ARG());
    else if (!strcmp(a, "--timeout")) exec_timeout = atof(ARG());
    else if (!strcmp(a, "--renv")) base_cfg.renv = parse_list(ARG(), rn, rb);
    else if (!strcmp(a, "--wenv")) base_cfg.wenv = parse_list(ARG(), wn, wb);
    else if (!strcmp(a, "--sigs")) base_cfg.sigs = parse_list(ARG(), sn, sb);
    else if (!strcmp(a, "--spurious")) base_cfg.spurious = atoi(ARG());
    else if (!strcmp(a, "--rfrag")) base_cfg.rfrag = strtoul(ARG(), NULL, 10);
    else if (!strcmp(a, "--wfrag")) base_cfg.wfrag = strtoul(ARG(), NULL, 10);
    else if (!strcmp(a, "--ign-sigpipe")) base_cfg.ign_sigpipe = 1;
    else if (!strcmp(a, "--env-all-fds")) base_cfg.env_fd_only = 0;
    else if (!strcmp(a, "--setenv")) { if (nsetenv < 32) setenvs[nsetenv++] = strdup(ARG()); }
    else if (!strcmp(a, "--horizon")) horizon = atoi(ARG());
    else if (!strcmp(a, "--heap-limit")) base_cfg.heap_limit = strtoull(ARG(), NULL, 10);
    else if (!strcmp(a, "--save-stdout")) save_out = ARG();
    else if (!strcmp(a, "--save-stderr")) save_err = ARG();
    else if (!strcmp(a, "--trace")) trace = 1;
    else if (!strcmp(a, "--cps")) want_cps = 1;
    else if (!strcmp(a, "--argv0")) argv0 = ARG();
    else if (!strcmp(a, "--chdir")) chdir_to = ARG();
    else if (!strcmp(a, "--fork")) use_fork = 1;
    else if (!strcmp(a, "--fs-template")) fs_template = ARG();
    else if (!strcmp(a, "--fs-work")) { fs_work = ARG(); chdir_to = fs_work; }
    else if (!strcmp(a, "--fenv")) {
      const char *v = ARG();
      if (strstr(v, "err")) base_cfg.fenv |= 1;
      if (strstr(v, "kill")) base_cfg.fenv |= 2;
    }
    else if (!strcmp(a, "--senv")) {
      const char *v = ARG();
      if (strstr(v, "epipe")) base_cfg.senv |= 1;
      if (strstr(v, "eio")) base_cfg.senv |= 2;
    }
    else if (!strcmp(a, "--inherit-mask")) {
      const char *v = ARG();
      if (strstr(v, "usr1")) base_cfg.inherit_mask |= 1ull << SIGUSR1;
      if (strstr(v, "usr2")) base_cfg.inherit_mask |= 1ull << SIGUSR2;
      if (strstr(v, "int")) base_cfg.inherit_mask |= 1ull << SIGINT;
      if (strstr(v, "term")) base_cfg.inherit_mask |= 1ull << SIGTERM;
      if (strstr(v, "pipe")) base_cfg.inherit_mask |= 1ull << SIGPIPE;
      if (strstr(v, "xfsz")) base_cfg.inherit_mask |= 1ull << SIGXFSZ;
    }
    else if (!strcmp(a, "--cases")) cases_file = ARG();
    else if (!strcmp(a, "--outdir")) outdir = ARG();
    else if (!strcmp(a, "--cpu-base")) cpu_base = atoi(ARG());
    else {
      fprintf(stderr, "lbzx: unknown option %s\n", a);
      return 2;
    }
  }
  l_argc = argc - i + 1;
  l_argv = malloc((l_argc + 1) * sizeof *l_argv);
  l_argv[0] = (char *)argv0;
  memcpy(l_argv + 1, argv + i, (argc - i) * sizeof *argv);
  l_argv[l_argc] = NULL;
  if (npol == 0) { policies[0] = 0; npol = 1; }

  if (stdin_file) {
    int fd = open(stdin_file, O_RDONLY);
    if (fd < 0) {
      perror(stdin_file);
      return 2;
    }
    in_data = slurp_fd(fd, &in_len);
    close(fd);
  }

  unsetenv("LBZIP2");
  unsetenv("BZIP2");
  unsetenv("BZIP");
  signal(SIGPIPE, SIG_DFL);

  X = mmap(NULL, sizeof *X, PROT_READ | PROT_WRITE, MAP_SHARED | MAP_ANONYMOUS, -1, 0);
  vs_rec = mmap(NULL, sizeof *vs_rec, PROT_READ | PROT_WRITE, MAP_SHARED | MAP_ANONYMOUS, -1, 0);
  if (X == MAP_FAILED || vs_rec == MAP_FAILED) {
    perror("mmap");
    return 2;
  }
  base_cfg.horizon = horizon ? horizon : VS_DEFCP;
  base_cfg.trace_fd = dup(2);
  fs_epoch = time(NULL) - 5;
  fs_private("main");

  if (!strcmp(mode, "run")) {
    struct result r;
    setup_fds();
    out = fdopen(fd_report, "w");
    base_cfg.policy = policies[0];
    base_cfg.verbose = trace;
    run_exec(&base_cfg, &r, 1);
    if (save_out) {
      size_t n; unsigned char *b = slurp_fd(fd_out, &n);
      FILE *f = fopen(save_out, "wb");
      if (f) { fwrite(b, 1, n, f); fclose(f); }
      free(b);
    }
    if (save_err) {
      size_t n; unsigned char *b = slurp_fd(fd_err, &n);
      FILE *f = fopen(save_err, "wb");
      if (f) { fwrite(b, 1, n, f); fclose(f); }
      free(b);
    }
    fprintf(out, "{\"kind\":\"%s\",\"code\":%d,\"stdout_len\":%llu,\"stdout_hash\":\"%016llx\","
            "\"stderr_len\":%llu,\"stderr_hash\":\"%016llx\",\"sanitizer\":%u,\"inv\":%u,"
            "\"ncp\":%u,\"preemptions\":%u,\"heap_peak\":%llu,\"heap_live_end\":%llu,\"heap_limit\":%llu,\"threads\":%u,\"stderr_head\":",
            kindname(r.kind), r.code, (unsigned long long)r.out_len, (unsigned long long)r.out_hash,
            (unsigned long long)r.err_len, (unsigned long long)r.err_hash, r.sanitizer,
            vs_rec->inv_flags, vs_rec->ncp, vs_rec->preemptions,
            (unsigned long long)vs_rec->heap_peak, (unsigned long long)vs_rec->heap_live_end, (unsigned long long)vs_rec->heap_limit_used,
            vs_rec->nthreads);
    json_str(out, r.err_head);
    fputs(",\"note\":", out);
    json_str(out, vs_rec->note);
    fputs(",\"fs\":", out);
    json_str(out, r.fs_desc);
    fputs(",\"events\":{", out);
    for (i = 0; i < 16; i++) fprintf(out, "%s\"%s\":%u", i ? "," : "", vs_event_names[i], vs_rec->ev_count[i]);
    fputs("}", out);
    if (want_cps) { fputc(',', out); print_trace(out); }
    fputs("}\n", out);
    fclose(out);
    return 0;
  }

  if (!strcmp(mode, "batch")) {
    /* ---- batch: many independent cases, canonical schedule each ---- */
    struct brec { int kind, code; uint64_t out_len, out_hash, err_len, err_hash; unsigned inv, san, ncp; unsigned ev[16]; char head[96]; };
    int fd = open(cases_file ? cases_file : "", O_RDONLY);
    struct stat st;
    unsigned char *cf;
    size_t off, ncases = 0, capc = 0, *offs = NULL;
    struct brec *res;
    volatile uint64_t *next;
    int w;
    pid_t *pids;
    if (fd < 0 || fstat(fd, &st) != 0) {
      perror("cases file");
      return 2;
    }
    cf = mmap(NULL, st.st_size ? st.st_size : 1, PROT_READ, MAP_PRIVATE, fd, 0);
    if (st.st_size < 7 || memcmp(cf, "LBZXB1\n", 7)) {
      fprintf(stderr, "lbzx: bad cases file\n");
      return 2;
    }
    off = 7;
    while (off + 4 <= (size_t)st.st_size) {
      uint32_t n, k, l;
      if (ncases == capc) {
        capc = capc ? capc * 2 : 4096;
        offs = realloc(offs, capc * sizeof *offs);
      }
      offs[ncases++] = off;
      memcpy(&n, cf + off, 4); off += 4;
      for (k = 0; k < n; k++) { memcpy(&l, cf + off, 4); off += 4 + l; }
      memcpy(&n, cf + off, 4); off += 4;
      for (k = 0; k < n; k++) { memcpy(&l, cf + off, 4); off += 4 + l; }
      memcpy(&l, cf + off, 4); off += 4 + l;      /* chdir */
      off += 12;                                  /* flags rfrag wfrag */
      memcpy(&l, cf + off, 4); off += 4;
      if (l != 0xffffffffu) off += l;
    }
    res = mmap(NULL, (ncases + 1) * sizeof *res, PROT_READ | PROT_WRITE, MAP_SHARED | MAP_ANONYMOUS, -1, 0);
    next = mmap(NULL, 4096, PROT_READ | PROT_WRITE, MAP_SHARED | MAP_ANONYMOUS, -1, 0);
    pids = calloc(jobs, sizeof *pids);
    for (w = 0; w < jobs; w++) {
      pids[w] = fork();
      if (pids[w] == 0) {
        vs_rec = mmap(NULL, sizeof *vs_rec, PROT_READ | PROT_WRITE, MAP_SHARED | MAP_ANONYMOUS, -1, 0);
        in_len = 0;
        setup_fds();
        pin_cpu = (cpu_base + w) % (int)sysconf(_SC_NPROCESSORS_ONLN);
        for (;;) {
          uint64_t it = __atomic_fetch_add(next, 1, __ATOMIC_RELAXED);
          struct vs_config cfg = base_cfg;
          struct result r;
          const unsigned char *p;
          char *q;
          uint32_t n, k, l, fl, rf, wf;
          if (it >= ncases)
            break;
          p = cf + offs[it];
          q = vs_rec->req;
          memcpy(&n, p, 4); p += 4;
          memcpy(q, &n, 4); q += 4;
          for (k = 0; k < n; k++) { memcpy(&l, p, 4); p += 4; memcpy(q, p, l); q[l] = 0; q += l + 1; p += l; }
          memcpy(&n, p, 4); p += 4;
          memcpy(q, &n, 4); q += 4;
          for (k = 0; k < n; k++) { memcpy(&l, p, 4); p += 4; memcpy(q, p, l); q[l] = 0; q += l + 1; p += l; }
          memcpy(&l, p, 4); p += 4; memcpy(q, p, l); q[l] = 0; q += l + 1; p += l;
          vs_rec->req_len = (uint32_t)(q - vs_rec->req);
          memcpy(&fl, p, 4); memcpy(&rf, p + 4, 4); memcpy(&wf, p + 8, 4); p += 12;
          memcpy(&l, p, 4); p += 4;
          if (ftruncate(fd_in, 0)) { }
          if (l != 0xffffffffu && l > 0 && pwrite(fd_in, p, l, 0) != (ssize_t)l) { }
          cfg.policy = fl & 3;
          cfg.ign_sigpipe = (fl >> 3) & 1;
          cfg.rfrag = rf;
          cfg.wfrag = wf;
          cfg.ndev = 0;
          run_exec(&cfg, &r, 0);
          res[it].kind = r.kind; res[it].code = r.code;
          res[it].out_len = r.out_len; res[it].out_hash = r.out_hash;
          res[it].err_len = r.err_len; res[it].err_hash = r.err_hash;
          res[it].inv = vs_rec->inv_flags; res[it].san = r.sanitizer; res[it].ncp = vs_rec->ncp;
          memcpy(res[it].ev, (void *)vs_rec->ev_count, sizeof res[it].ev);
          snprintf(res[it].head, sizeof res[it].head, "%s", r.err_head);
          if ((fl & 4) && outdir) {
            char path[4096];
            size_t n2;
            unsigned char *b = slurp_fd(fd_out, &n2);
            FILE *f;
            snprintf(path, sizeof path, "%s/%llu.out", outdir, (unsigned long long)it);
            f = fopen(path, "wb");
            if (f) { fwrite(b, 1, n2, f); fclose(f); }
            free(b);
          }
        }
        _exit(0);
      }
    }
    for (w = 0; w < jobs; w++) {
      int stw;
      waitpid(pids[w], &stw, 0);
      if (!WIFEXITED(stw) || WEXITSTATUS(stw) != 0) {
        fprintf(stderr, "lbzx: batch worker failed\n");
        return 2;
      }
    }
    out = fdopen(dup(1), "w");
    for (off = 0; off < ncases; off++) {
      char *nl;
      for (nl = res[off].head; *nl; nl++) if (*nl == '\n' || *nl == '\t') *nl = ' ';
      fprintf(out, "%zu\t%s\t%d\t%llu\t%016llx\t%llu\t%016llx\t%u\t%u\t%u\t%s\t", off, kindname(res[off].kind),
              res[off].code, (unsigned long long)res[off].out_len, (unsigned long long)res[off].out_hash,
              (unsigned long long)res[off].err_len, (unsigned long long)res[off].err_hash,
              res[off].inv, res[off].san, res[off].ncp, res[off].head);
      for (w = 0; w < 16; w++) fprintf(out, "%s%u", w ? "," : "", res[off].ev[w]);
      fputc('\n', out);
    }
    fclose(out);
    return 0;
  }

  if (strcmp(mode, "explore")) {
    fprintf(stderr, "lbzx: unknown mode %s\n", mode);
    return 2;
  }

  /* ---- explore ---- */
  if (deadline > 0)
    deadline_at = t0 + deadline;
  setup_fds();
  out = fdopen(fd_report, "w");
  {
    /* canonical executions; they define the horizon and the first-level work */
    uint32_t maxn = 0, cap = 0;
    struct xitem *tmp = NULL;
    size_t nit = 0, capit = 0;
    int p;
    static uint32_t base_ncp[5100];
    for (p = 0; p < npol; p++) {
      struct vs_config cfg = base_cfg;
      struct result r;
      uint32_t k, a;
      cfg.policy = policies[p];
      cfg.ndev = 0;
      run_exec(&cfg, &r, 0);
      account(&cfg, &r);
      base_ncp[p] = vs_rec->ncp;
      if (vs_rec->ncp > maxn) maxn = vs_rec->ncp;
      if (bound >= 1)
        for (k = 0; k < vs_rec->ncp; k++)
          for (a = 1; a < vs_rec->cp[k].nalts; a++) {
            if (nit == capit) {
              capit = capit ? capit * 2 : 1024;
              tmp = realloc(tmp, capit * sizeof *tmp);
            }
            tmp[nit].policy = policies[p];
            tmp[nit].idx = k;
            tmp[nit].alt = a;
            nit++;
          }
    }
    if (!horizon) {
      cap = 20 * maxn + 400;
      if (cap > VS_DEFCP) cap = VS_DEFCP;
      base_cfg.horizon = cap;
    }
    items = mmap(NULL, (nit + 1) * sizeof *items, PROT_READ | PROT_WRITE,
                 MAP_SHARED | MAP_ANONYMOUS, -1, 0);
    if (nit)
      memcpy(items, tmp, nit * sizeof *items);
    free(tmp);
    X->nitems = nit;
    X->next_item = 0;

    if (nit > 0) {
      int w;
      pid_t *pids = calloc(jobs, sizeof *pids);
      for (w = 0; w < jobs; w++) {
        pids[w] = fork();
        if (pids[w] == 0) {
          /* worker: own descriptors and own record */
          close(fd_in); close(fd_out); close(fd_err);
          if (exe_pid >= 0) {   /* the parent's executor is not ours */
            close(exe_req);
            close(exe_resp);
            exe_pid = -1;
          }
          vs_rec = mmap(NULL, sizeof *vs_rec, PROT_READ | PROT_WRITE,
                        MAP_SHARED | MAP_ANONYMOUS, -1, 0);
          setup_fds();
          {
            char tag[32];
            snprintf(tag, sizeof tag, "w%d", w);
            fs_private(tag);
          }
          pin_cpu = (cpu_base + w) % (int)sysconf(_SC_NPROCESSORS_ONLN);
          /* children of this worker must not map the shared explorer state:
             16 workers forking and reaping children that all map one shared
             object serialise on its i_mmap lock */
          madvise(X, sizeof *X, MADV_DONTFORK);
          madvise(items, (X->nitems + 1) * sizeof *items, MADV_DONTFORK);
          for (;;) {
            uint64_t it = __atomic_fetch_add(&X->next_item, 1, __ATOMIC_RELAXED);
            struct vs_config cfg = base_cfg;
            if (it >= X->nitems || X->stop)
              break;
            cfg.policy = items[it].policy;
            cfg.ndev = 1;
            cfg.dev[0].idx = items[it].idx;
            cfg.dev[0].alt = items[it].alt;
            dfs(&cfg);
          }
          _exit(0);
        }
      }
      for (w = 0; w < jobs; w++) {
        int st;
        waitpid(pids[w], &st, 0);
        if (!WIFEXITED(st) || WEXITSTATUS(st) != 0)
          X->stop = 2;
      }
      free(pids);
    }

    fprintf(out, "{\"complete\":%s,\"worker_failure\":%s,\"bound\":%d,\"policies\":[",
            X->stop ? "false" : "true", X->stop == 2 ? "true" : "false", bound);
    for (p = 0; p < npol; p++) fprintf(out, "%s\"P%d\"", p ? "," : "", policies[p]);
    fputs("],\"base_ncp\":[", out);
    for (p = 0; p < npol; p++) fprintf(out, "%s%u", p ? "," : "", base_ncp[p]);
    fprintf(out, "],\"horizon\":%u,\"executions\":%llu,\"cp_total\":%llu,\"max_cp\":%llu,"
            "\"max_preemptions\":%llu,\"heap_peak_max\":%llu,\"heap_limit\":%llu,\"distinct_states\":%llu,"
            "\"states_capped\":%llu,\"wall_s\":%.3f,\"exec_by_depth\":[",
            base_cfg.horizon, (unsigned long long)X->executions, (unsigned long long)X->cp_total,
            (unsigned long long)X->max_cp, (unsigned long long)X->max_preempt,
            (unsigned long long)X->heap_peak_max, (unsigned long long)X->heap_limit_used,
            (unsigned long long)X->nstates,
            (unsigned long long)X->states_capped, now() - t0);
    for (i = 0; i <= bound && i <= VS_MAXDEV; i++)
      fprintf(out, "%s%llu", i ? "," : "", (unsigned long long)X->exec_by_depth[i]);
    fputs("],\"cp_by_kind\":[", out);
    for (i = 0; i < 7; i++) fprintf(out, "%s%llu", i ? "," : "", (unsigned long long)X->cp_by_kind[i]);
    fputs("],\"events\":{", out);
    for (i = 0; i < 16; i++) fprintf(out, "%s\"%s\":%llu", i ? "," : "", vs_event_names[i], (unsigned long long)X->ev_total[i]);
    fputs("},\"events_max\":{", out);
    for (i = 0; i < 16; i++) fprintf(out, "%s\"%s\":%llu", i ? "," : "", vs_event_names[i], (unsigned long long)X->ev_max[i]);
    fprintf(out, "},\"scan_found_max\":%llu,\"classes_capped\":%s,\"classes\":[", (unsigned long long)X->scan_found_max, X->ncls >= MAXCLS ? "true" : "false");
    for (i = 0; i < X->ncls; i++) {
      struct xclass *k = &X->cls[i];
      fprintf(out, "%s{\"kind\":\"%s\",\"code\":%d,\"stdout_len\":%llu,\"stdout_hash\":\"%016llx\","
              "\"stderr_len\":%llu,\"stderr_hash\":\"%016llx\",\"inv\":%u,\"sanitizer\":%u,"
              "\"count\":%llu,\"policy\":\"P%d\",\"ncp\":%u,\"dev\":",
              i ? "," : "", kindname(k->kind), k->code, (unsigned long long)k->out_len,
              (unsigned long long)k->out_hash, (unsigned long long)k->err_len,
              (unsigned long long)k->err_hash, k->inv, k->sanitizer,
              (unsigned long long)k->count, k->policy, k->ncp);
      json_devs(out, k->dev, k->ndev);
      fputs(",\"stderr_head\":", out);
      json_str(out, k->err_head);
      fputs(",\"note\":", out);
      json_str(out, k->note);
      fputs(",\"fs\":", out);
      json_str(out, k->fs_desc);
      fputs("}", out);
    }
    fputs("]}\n", out);
    fclose(out);
  }
  return 0;
}
