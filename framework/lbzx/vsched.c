/* vsched.c -- serialising scheduler, signal model and I/O environment for
 * lbzip2 running in-process (engine E1, DESIGN.md section 2).
 *
 * This translation unit is always compiled WITHOUT sanitizer instrumentation:
 * the hand-off between threads (raw futex) must be invisible to ThreadSanitizer
 * so that its happens-before graph contains only lbzip2's own synchronisation.
 * The real pthread_mutex_lock/unlock, pthread_create/join are still called once
 * the scheduler has granted an operation, so a sanitizer runtime sees exactly
 * the program's lock/unlock/create/join edges.
 */
#define _GNU_SOURCE
#include <errno.h>
#include <limits.h>
#include <linux/futex.h>
#include <malloc.h>
#include <pthread.h>
#include <setjmp.h>
#include <signal.h>
#include <stdarg.h>
#include <stdio.h>
#include <stdlib.h>
#include <string.h>
#include <sys/syscall.h>
#include <unistd.h>
#include <stdbool.h>
#include <fcntl.h>
#include <sys/stat.h>
#include <stdio_ext.h>

#include "vsched.h"

struct vs_config vs_cfg;
struct vs_record *vs_rec;
static __thread int vs_self;

/* public state of lbzip2's scheduler (process.h / main.h) */
extern unsigned work_units, in_slots, out_slots, total_in_slots, total_out_slots;
extern bool eof;
extern unsigned num_worker;
extern bool decompress;
extern unsigned bs100k;
extern size_t in_granul, out_granul;
size_t encoder_alloc_size(unsigned long mbs);

enum { OP_NONE, OP_START, OP_LOCK, OP_JOIN, OP_READ, OP_WRITE, OP_KILL,
       OP_SUSPEND, OP_EXIT, OP_CREATED, OP_FLOCK, OP_FILE };
static const char *const opname[] = { "run", "start", "lock", "join", "read",
  "write", "kill", "sigsuspend", "exit", "created", "flockfile", "fileop" };

struct vmx { void *addr; int owner; };
#define MAXMX 32
static struct vmx MX[MAXMX];
static int nmx;

struct vth {
  int used, finished;
  pthread_t real;
  int op;
  int obj;               /* mutex index / thread id */
  int cwait;             /* waiting on a condition variable (not yet signalled) */
  void *cond;
  uint64_t mask, pend, susp_mask;
  void *(*fn)(void *);
  void *arg;
  unsigned nops;
};
static struct vth T[VS_MAXT];
static int GO[VS_MAXT];         /* futex words, one per (pool) thread */
static int nthreads;

/* in-process mode: executions run one after another inside one long-lived
   executor process on a pool of real threads; see explore.c */
int vs_inproc;
static jmp_buf base[VS_MAXT];
static int ending;
static int busy;                /* pool threads away from their base (futex) */
static pthread_t pool[VS_MAXT];
static int pool_n;
static int l_argc;
static char **l_argv;
static int cur;

static uint64_t proc_pend;
#define ACT_DFL ((void (*)(int))0)
#define ACT_IGN ((void (*)(int))1)
static void (*act[65])(int);
static unsigned sigs_sent;      /* env signals already delivered (bit per kind) */
static unsigned spurious_left;
static unsigned devpos;

static uint64_t heap_live;
#define MAXFD 16
static int FDS[MAXFD];
static int nfds;
static uint64_t heap_base;        /* what the harness itself allocated for the argument vector */

#define BIT(s) (1ull << (s))

/* ThreadSanitizer annotations.  In the tsan variant (-DVS_TSAN) the model
   tells the race detector about exactly lbzip2's own synchronisation: mutex
   lock/unlock, thread creation and join.  Execution boundaries of the
   in-process mode are full barriers (everything of execution n happens before
   everything of execution n+1), because the pool threads and the memory are
   reused.  The turn hand-off itself stays invisible. */
#ifdef VS_TSAN
void __tsan_acquire(void *addr);
void __tsan_release(void *addr);
#define TS_ACQ(a) __tsan_acquire(a)
#define TS_REL(a) __tsan_release(a)
#define SG_ACQ(a) ((void)0)
#define SG_REL(a) ((void)0)
#define HB_BEGIN() ((void)0)
#elif defined(VS_HB)
/* variant `hbrace': our own happens-before race detector (end of this file)
   is told the same edges, plus kill() -> signal delivery */
static void hb_acquire(void *addr);
static void hb_release(void *addr);
static void hb_begin(void);
#define TS_ACQ(a) hb_acquire(a)
#define TS_REL(a) hb_release(a)
#define SG_ACQ(a) hb_acquire(a)
#define SG_REL(a) hb_release(a)
#define HB_BEGIN() hb_begin()
#else
#define TS_ACQ(a) ((void)0)
#define TS_REL(a) ((void)0)
#define SG_ACQ(a) ((void)0)
#define SG_REL(a) ((void)0)
#define HB_BEGIN() ((void)0)
#endif
static char hb_sigobj;
static char ts_epoch_end, ts_epoch_start;
static char ts_thread[VS_MAXT], ts_done[VS_MAXT];

/* ---- low level ---------------------------------------------------------- */

/* Hand-off words: 0 = wait, 1 = go, 2 = waiter sleeps in the kernel.  A short
   spin before sleeping saves the wake-up IPI in the common case that the turn
   comes back within microseconds. */
static int spin_iters = 0;

static void
fwait_raw(int *w)
{
  int i, v;
  for (i = 0; i < spin_iters; i++) {
    if (__atomic_load_n(w, __ATOMIC_ACQUIRE) == 1)
      goto got;
    __builtin_ia32_pause();
  }
  for (;;) {
    v = 0;
    if (__atomic_compare_exchange_n(w, &v, 2, 0, __ATOMIC_ACQ_REL, __ATOMIC_ACQUIRE) || v == 2)
      syscall(SYS_futex, w, FUTEX_WAIT_PRIVATE, 2, NULL, NULL, 0);
    if (__atomic_load_n(w, __ATOMIC_ACQUIRE) == 1)
      break;
  }
got:
  __atomic_store_n(w, 0, __ATOMIC_RELAXED);
}

/* wait for the turn; if the execution was ended meanwhile (in-process mode)
   abandon whatever lbzip2 frame we are in and return to the pool */
static void
fwait(int *w)
{
  fwait_raw(w);
  if (__atomic_load_n(&ending, __ATOMIC_ACQUIRE))
    _longjmp(base[vs_self], 1);
}

static void
fwake(int *w)
{
  if (__atomic_exchange_n(w, 1, __ATOMIC_ACQ_REL) == 2)
    syscall(SYS_futex, w, FUTEX_WAKE_PRIVATE, 1, NULL, NULL, 0);
}

static void
vtrace(const char *fmt, ...)
{
  if (vs_cfg.verbose) {
    char b[512];
    va_list ap;
    int n;
    va_start(ap, fmt);
    n = vsnprintf(b, sizeof b, fmt, ap);
    va_end(ap);
    if (n > (int)sizeof b)
      n = sizeof b;
    if (write(vs_cfg.trace_fd, b, n) < 0) { }
  }
}

static void
end_inproc(void)
{
  int self = vs_self, t;
  __atomic_store_n(&ending, 1, __ATOMIC_SEQ_CST);
  for (t = 0; t < nthreads; t++)
    if (t != self && T[t].used && !T[t].finished)
      fwake(&GO[t]);
  _longjmp(base[self], 1);
}

static void
finish(int outcome, int code, int exitcode)
{
  vs_rec->heap_live_end = heap_live;
  /* lbzip2 gives back every block before a successful exit (only the argument
     vector of the harness stays): anything else still allocated was lost on
     the way -- per block or per operand, so it grows with the input (C13) */
  if (outcome == OC_EXIT && (code == 0 || code == 4) && nfds > 0) {
    /* every file lbzip2 opens for an operand is closed again before the next
       operand; a descriptor still open at a successful exit was lost on some
       path (and the next operands inherit one descriptor less each time) */
    if (!(vs_rec->inv_flags & ~(64u | 32u | 128u)))
      snprintf(vs_rec->note, sizeof vs_rec->note, "%d file descriptor(s) opened by lbzip2 still open at exit status %d (first: %d)",
               nfds, code, FDS[0]);
    vs_rec->inv_flags |= 2048;
  }
  if (outcome == OC_EXIT && (code == 0 || code == 4) && heap_live > heap_base) {
    if (!(vs_rec->inv_flags & ~(64u | 32u | 128u)))
      snprintf(vs_rec->note, sizeof vs_rec->note, "%llu bytes of heap never released at exit status %d",
               (unsigned long long)(heap_live - heap_base), code);
    vs_rec->inv_flags |= 1024;
  }
  vs_rec->nthreads = nthreads;
  vs_rec->code = code;
  __atomic_store_n(&vs_rec->outcome, outcome, __ATOMIC_SEQ_CST);
  if (vs_inproc)
    end_inproc();
  _exit(exitcode);
}

static void
describe_threads(void)
{
  int t, n = 0;
  char *p = vs_rec->note;
  size_t left = sizeof vs_rec->note;
  for (t = 0; t < nthreads && left > 40; t++) {
    if (!T[t].used)
      continue;
    n = snprintf(p, left, "t%d:%s%s(%d) ", t,
                 T[t].finished ? "done" : opname[T[t].op],
                 T[t].cwait ? "/cwait" : "", T[t].obj);
    if (n < 0 || (size_t)n >= left)
      break;
    p += n;
    left -= n;
  }
}

static void
die_by_signal(int sig)
{
  sigset_t s;
  vtrace("  model: process dies by signal %d\n", sig);
  vs_rec->heap_live_end = heap_live;
  vs_rec->nthreads = nthreads;
  vs_rec->code = sig;
  __atomic_store_n(&vs_rec->outcome, OC_SIGNAL, __ATOMIC_SEQ_CST);
  if (vs_inproc)
    end_inproc();
  signal(sig, SIG_DFL);
  sigemptyset(&s);
  sigaddset(&s, sig);
  pthread_sigmask(SIG_UNBLOCK, &s, NULL);
  raise(sig);
  _exit(255);
}

/* ---- choice points ------------------------------------------------------ */

static uint64_t
mix(uint64_t h, uint64_t v)
{
  h ^= v + 0x9e3779b97f4a7c15ull + (h << 6) + (h >> 2);
  return h * 0xff51afd7ed558ccdull;
}

static void
check_invariants(void)
{
  unsigned f = 0;
  if (work_units > num_worker) f |= 1;
  if (in_slots > total_in_slots && in_slots > 2) f |= 2;
  if (out_slots > total_out_slots) f |= 4;
  if (vs_cfg.heap_limit == 1 && total_out_slots > 0 && num_worker > 0) {
    /* C13: the memory the slot discipline allows, from the program's own
       numbers: W work units (one encoder, or one decoder with its 900000-word
       array and tables), the input slots and the output slots; the slot totals
       themselves must stay within twice the documented per-worker constants */
    uint64_t lim = 512u << 10;
    lim += (uint64_t)total_in_slots * (in_granul + 256);
    if (!decompress) {
      lim += (uint64_t)num_worker * (encoder_alloc_size(bs100k * 100000ul) + 4096);
      lim += (uint64_t)total_out_slots * (in_granul + in_granul / 50 + 4096);
    }
    else {
      lim += (uint64_t)num_worker * (900000ull * 4 + (256u << 10));
      lim += (uint64_t)total_out_slots * ((uint64_t)out_granul + 256);
    }
    vs_rec->heap_limit_used = lim;
    if (vs_rec->heap_peak > lim) f |= 8;
    if (total_in_slots > 8 * num_worker || total_out_slots > 32 * num_worker + 4) f |= 16;
  }
  else if (vs_cfg.heap_limit > 1 && vs_rec->heap_peak > vs_cfg.heap_limit) f |= 8;
  if (f & ~vs_rec->inv_flags) {
    vtrace("  INVARIANT flags %x: wu=%u/%u in=%u/%u out=%u/%u\n", f, work_units,
           num_worker, in_slots, total_in_slots, out_slots, total_out_slots);
    vs_rec->inv_flags |= f;
  }
}

static int
choose(int kind, int nalts, int tid, int self_en)
{
  uint32_t idx;
  int c = 0;

  if (nalts <= 1)
    return 0;
  idx = vs_rec->ncp;
  if (idx >= vs_cfg.horizon || idx >= VS_MAXCP) {
    describe_threads();
    finish(OC_HORIZON, 0, 252);
  }
  if (devpos < (unsigned)vs_cfg.ndev) {
    if (vs_cfg.dev[devpos].idx == idx) {
      c = vs_cfg.dev[devpos].alt;
      devpos++;
      if (c >= nalts) {
        snprintf(vs_rec->note, sizeof vs_rec->note,
                 "deviation %u.%d does not fit: only %d alternatives", idx, c, nalts);
        finish(OC_DIVERGE, 0, 253);
      }
    }
    else if (vs_cfg.dev[devpos].idx < idx) {
      snprintf(vs_rec->note, sizeof vs_rec->note,
               "deviation index %u skipped at %u", vs_cfg.dev[devpos].idx, idx);
      finish(OC_DIVERGE, 0, 253);
    }
  }
  vs_rec->cp[idx].nalts = nalts;
  vs_rec->cp[idx].chosen = c;
  vs_rec->cp[idx].kind = kind;
  vs_rec->cp[idx].tid = tid;
  vs_rec->cp[idx].op = T[tid].op;
  vs_rec->cp[idx].self_enabled = self_en;
  if (kind == CP_SCHED) {
    uint64_t h = 1469598103934665603ull;
    int t;
    h = mix(h, work_units); h = mix(h, in_slots); h = mix(h, out_slots);
    h = mix(h, eof);
    for (t = 0; t < nthreads; t++)
      h = mix(h, ((uint64_t)T[t].nops << 8) | (T[t].op << 1) | T[t].finished);
    vs_rec->state[idx] = h;
  }
  else
    vs_rec->state[idx] = 0;
  vs_rec->ncp = idx + 1;
  return c;
}

static int
deliverable(int t, uint64_t mask)
{
  return ((proc_pend | T[t].pend) & ~mask) != 0;
}

static int
enabled(int t)
{
  if (!T[t].used || T[t].finished)
    return 0;
  switch (T[t].op) {
  case OP_LOCK:
  case OP_FLOCK:
    return !T[t].cwait && MX[T[t].obj].owner == -1;
  case OP_JOIN:
    return T[T[t].obj].finished;
  case OP_SUSPEND:
    return deliverable(t, T[t].susp_mask);
  default:
    return 1;
  }
}

#define ENV_BASE 100
#define ENV_SIGINT 100
#define ENV_SIGTERM 101
#define ENV_SPUR 110            /* + thread id */
#define ENV_DEMOTE 109          /* strict priorities: the running thread drops to the lowest priority */
static unsigned demote_left;

static void
post_signal(int sig)
{
  if (act[sig] == ACT_IGN)
    return;
  proc_pend |= BIT(sig);
}

static int prio_order[8], prio_n;

/* r-th permutation (factorial number system) of 0..K-1 */
static void
prio_decode(int K, int r)
{
  int pool_[8], i, j, f = 1;
  for (i = 0; i < K; i++) pool_[i] = i;
  for (i = 2; i < K; i++) f *= i;       /* (K-1)! */
  prio_n = K;
  for (i = 0; i < K; i++) {
    int q = r / f;
    r %= f;
    prio_order[i] = pool_[q];
    for (j = q; j < K - 1 - i; j++) pool_[j] = pool_[j + 1];
    if (K - 1 - i > 0) f /= (K - 1 - i);
  }
}

static void
sched_point(int self)
{
  T[self].nops++;
  check_invariants();

  for (;;) {
    int alts[VS_MAXT + 48];
    int n = 0, t, k, c, pick, nthr;
    int self_en = enabled(self);

    switch (vs_cfg.policy) {
    default:
    case 0:
      if (self_en) alts[n++] = self;
      for (t = 0; t < nthreads; t++)
        if (t != self && enabled(t)) alts[n++] = t;
      break;
    case 1:
      if (self_en) alts[n++] = self;
      for (t = nthreads - 1; t >= 0; t--)
        if (t != self && enabled(t)) alts[n++] = t;
      break;
    case 2:
      for (k = 1; k <= nthreads; k++) {
        t = (self + k) % nthreads;
        if (enabled(t)) alts[n++] = t;
      }
      break;
    }
    if (vs_cfg.policy >= 3) {
      /* strict (preemptive) priorities: a thread runs only while every thread
         of higher priority is blocked; threads beyond the permuted ones come
         last, in creation order */
      n = 0;
      for (k = 0; k < prio_n; k++)
        if (prio_order[k] < nthreads && enabled(prio_order[k])) alts[n++] = prio_order[k];
      for (t = prio_n; t < nthreads; t++)
        if (enabled(t)) alts[n++] = t;
    }
    if (vs_cfg.policy >= 3 && demote_left > 0 && n >= 2) {
      /* priority-change points (as in PCT): the only alternative to the
         strict-priority choice is to demote the thread that would run */
      n = 1;
      alts[n++] = ENV_DEMOTE;
    }
    nthr = n;
    if (nthr && alts[nthr - 1] == ENV_DEMOTE)
      nthr--;
    if (nthr == 0) {
      describe_threads();
      vtrace("  DEADLOCK: %s\n", vs_rec->note);
      finish(OC_DEADLOCK, 0, 251);
    }
    if ((vs_cfg.sigs & 1) && !(sigs_sent & 1)) alts[n++] = ENV_SIGINT;
    if ((vs_cfg.sigs & 2) && !(sigs_sent & 2)) alts[n++] = ENV_SIGTERM;
    if (spurious_left > 0)
      for (t = 0; t < nthreads; t++)
        if (T[t].used && !T[t].finished && T[t].cwait) alts[n++] = ENV_SPUR + t;

    c = choose(CP_SCHED, n, self, self_en);
    pick = alts[c];
    if (vs_cfg.verbose) {
      vtrace("cp %u: t%d at %s(%d)%s; alts:", vs_rec->ncp - (n > 1), self,
             T[self].finished ? "exit" : opname[T[self].op], T[self].obj,
             self_en ? "" : " [blocked]");
      for (k = 0; k < n; k++) vtrace(" %d", alts[k]);
      vtrace(" -> %d   wu=%u in=%u out=%u eof=%d\n", pick, work_units, in_slots,
             out_slots, eof);
    }
    if (pick == ENV_DEMOTE) {
      int who = alts[0], i;
      demote_left--;
      vtrace("   priority change: t%d drops to the lowest priority\n", who);
      for (i = 0; i < prio_n; i++)
        if (prio_order[i] == who) {
          for (; i + 1 < prio_n; i++)
            prio_order[i] = prio_order[i + 1];
          prio_order[prio_n - 1] = who;
          break;
        }
      continue;
    }
    if (pick >= ENV_BASE) {
      if (pick == ENV_SIGINT) { sigs_sent |= 1; post_signal(SIGINT); }
      else if (pick == ENV_SIGTERM) { sigs_sent |= 2; post_signal(SIGTERM); }
      else { spurious_left--; T[pick - ENV_SPUR].cwait = 0; }
      /* a signal nobody blocks would be delivered asynchronously; in lbzip2
         only the main thread ever has INT/TERM unblocked */
      if (pick < ENV_SPUR) {
        int sig = pick == ENV_SIGINT ? SIGINT : SIGTERM;
        if ((proc_pend & BIT(sig)) && !(T[0].mask & BIT(sig)) && T[0].op != OP_SUSPEND) {
          if (act[sig] == ACT_DFL)
            die_by_signal(sig);
          snprintf(vs_rec->note, sizeof vs_rec->note,
                   "asynchronous handler delivery of %d outside sigsuspend", sig);
          finish(OC_UNMODELLED, 0, 254);
        }
      }
      continue;
    }
    if (pick == self)
      return;
    if (self_en)
      vs_rec->preemptions++;
    cur = pick;
    if (T[self].finished) {
      fwake(&GO[pick]);
      return;
    }
    fwake(&GO[pick]);
    fwait(&GO[self]);
    return;
  }
}

/* ---- mutexes and condition variables ------------------------------------ */

static int
mx_get(void *addr)
{
  int i;
  for (i = 0; i < nmx; i++)
    if (MX[i].addr == addr)
      return i;
  if (nmx == MAXMX)
    abort();
  MX[nmx].addr = addr;
  MX[nmx].owner = -1;
  return nmx++;
}

int
vs_mutex_lock(pthread_mutex_t *m)
{
  int self = vs_self, x = mx_get(m);
  T[self].op = OP_LOCK;
  T[self].obj = x;
  sched_point(self);
  MX[x].owner = self;
  T[self].op = OP_NONE;
  if (!vs_inproc && pthread_mutex_lock(m) != 0)
    abort();
  if (vs_inproc)
    TS_ACQ(m);
  return 0;
}

int
vs_mutex_unlock(pthread_mutex_t *m)
{
  int self = vs_self, x = mx_get(m);
  if (MX[x].owner != self)
    return EPERM;
  MX[x].owner = -1;
  if (vs_inproc)
    TS_REL(m);
  if (!vs_inproc && pthread_mutex_unlock(m) != 0)
    abort();
  return 0;
}

int
vs_cond_wait(pthread_cond_t *c, pthread_mutex_t *m)
{
  int self = vs_self, x = mx_get(m);
  if (MX[x].owner != self)
    return EPERM;
  MX[x].owner = -1;
  if (vs_inproc)
    TS_REL(m);
  if (!vs_inproc && pthread_mutex_unlock(m) != 0)
    abort();
  T[self].op = OP_LOCK;
  T[self].obj = x;
  T[self].cwait = 1;
  T[self].cond = c;
  sched_point(self);
  MX[x].owner = self;
  T[self].op = OP_NONE;
  if (!vs_inproc && pthread_mutex_lock(m) != 0)
    abort();
  if (vs_inproc)
    TS_ACQ(m);
  return 0;
}

int
vs_cond_signal(pthread_cond_t *c)
{
  int self = vs_self, w[VS_MAXT], n = 0, t, k;
  for (t = 0; t < nthreads; t++)
    if (T[t].used && !T[t].finished && T[t].cwait && T[t].cond == c)
      w[n++] = t;
  if (n == 0)
    return 0;
  if (vs_cfg.policy == 1)       /* P1: highest waiter first */
    for (t = 0; t < n / 2; t++) { k = w[t]; w[t] = w[n - 1 - t]; w[n - 1 - t] = k; }
  k = choose(CP_SIGPICK, n, self, 1);
  vtrace("   t%d signals cond: wakes t%d (of %d waiters)\n", self, w[k], n);
  T[w[k]].cwait = 0;
  return 0;
}

int
vs_cond_broadcast(pthread_cond_t *c)
{
  int t;
  for (t = 0; t < nthreads; t++)
    if (T[t].used && !T[t].finished && T[t].cwait && T[t].cond == c)
      T[t].cwait = 0;
  return 0;
}

void
vs_flockfile(FILE *f)
{
  int self = vs_self, x = mx_get(f);
  if (MX[x].owner == self)      /* recursive use does not occur in lbzip2 */
    abort();
  T[self].op = OP_FLOCK;
  T[self].obj = x;
  sched_point(self);
  MX[x].owner = self;
  T[self].op = OP_NONE;
  TS_ACQ(f);
}

void
vs_funlockfile(FILE *f)
{
  int x = mx_get(f);
  MX[x].owner = -1;
  TS_REL(f);
}

/* ---- threads ------------------------------------------------------------ */

static void
thread_finish(int id)
{
  TS_REL(&ts_done[id]);
  T[id].finished = 1;
  T[id].op = OP_EXIT;
  sched_point(id);
}

static void *
tramp(void *a)
{
  int id = (int)(intptr_t)a;
  void *r;
  vs_self = id;
  fwait(&GO[id]);
  T[id].op = OP_NONE;
  r = T[id].fn(T[id].arg);
  thread_finish(id);
  return r;
}

/* pool thread of the in-process mode: model thread `id' of every execution
   runs on pool thread `id' */
static void *
pool_main(void *a)
{
  int id = (int)(intptr_t)a;
  vs_self = id;
  for (;;) {
    if (_setjmp(base[id]) == 0) {
      fwait_raw(&GO[id]);
      if (!__atomic_load_n(&ending, __ATOMIC_ACQUIRE)) {
        TS_ACQ(&ts_epoch_start);
        TS_ACQ(&ts_thread[id]);
        T[id].op = OP_NONE;
        T[id].fn(T[id].arg);
        thread_finish(id);
      }
    }
    /* back at base */
    TS_REL(&ts_epoch_end);
    if (__atomic_sub_fetch(&busy, 1, __ATOMIC_SEQ_CST) == 0)
      syscall(SYS_futex, &busy, FUTEX_WAKE_PRIVATE, 1, NULL, NULL, 0);
  }
  return NULL;
}

static int
pool_need(int id)
{
  while (pool_n <= id) {
    pthread_attr_t at;
    pthread_attr_init(&at);
    pthread_attr_setstacksize(&at, 4u << 20);
    if (pthread_create(&pool[pool_n], &at, pool_main, (void *)(intptr_t)pool_n) != 0)
      return -1;
    pthread_attr_destroy(&at);
    pool_n++;
  }
  return 0;
}

int
vs_create(pthread_t *th, const pthread_attr_t *attr, void *(*fn)(void *), void *arg)
{
  int self = vs_self, id = nthreads, rc;
  if (id >= VS_MAXT)
    return EAGAIN;
  memset(&T[id], 0, sizeof T[id]);
  T[id].used = 1;
  T[id].fn = fn;
  T[id].arg = arg;
  T[id].op = OP_START;
  T[id].mask = T[self].mask;
  nthreads++;
  if (vs_inproc) {
    if (pool_need(id) != 0) {
      nthreads--;
      return EAGAIN;
    }
    T[id].real = pool[id];
    TS_REL(&ts_thread[id]);
    __atomic_add_fetch(&busy, 1, __ATOMIC_SEQ_CST);
  }
  else {
    rc = pthread_create(&T[id].real, attr, tramp, (void *)(intptr_t)id);
    if (rc != 0) {
      nthreads--;
      return rc;
    }
  }
  *th = T[id].real;
  T[self].op = OP_CREATED;
  T[self].obj = id;
  sched_point(self);
  T[self].op = OP_NONE;
  return 0;
}

int
vs_join(pthread_t th, void **ret)
{
  int self = vs_self, t;
  for (t = 0; t < nthreads; t++)
    if (T[t].used && pthread_equal(T[t].real, th))
      break;
  if (t == nthreads)
    return ESRCH;
  T[self].op = OP_JOIN;
  T[self].obj = t;
  sched_point(self);
  T[self].op = OP_NONE;
  if (vs_inproc) {
    TS_ACQ(&ts_done[t]);
    if (ret)
      *ret = NULL;
    return 0;
  }
  return pthread_join(th, ret);
}

void
vs_thread_exit(void *r)
{
  int self = vs_self;
  thread_finish(self);
  if (vs_inproc)
    _longjmp(base[self], 1);
  pthread_exit(r);
}

void
vs_exit(int code)
{
  check_invariants();
  vtrace("  t%d: _exit(%d)\n", vs_self, code);
  finish(OC_EXIT, code, code);
}

/* ---- signals ------------------------------------------------------------ */

static uint64_t
set2mask(const sigset_t *s)
{
  uint64_t m = 0;
  int i;
  for (i = 1; i < 64; i++)
    if (sigismember(s, i) == 1)
      m |= BIT(i);
  return m;
}

static void
mask2set(uint64_t m, sigset_t *s)
{
  int i;
  sigemptyset(s);
  for (i = 1; i < 64; i++)
    if (m & BIT(i))
      sigaddset(s, i);
}

/* deliver every pending signal of thread `self' that `mask' does not block */
static int
deliver(int self, uint64_t mask)
{
  int hs[64], nh = 0, s, k, last;
  uint64_t set = (proc_pend | T[self].pend) & ~mask;
  if (!set)
    return 0;
  SG_ACQ(&hb_sigobj);
  for (s = 1; s < 64; s++) {
    if (!(set & BIT(s)))
      continue;
    proc_pend &= ~BIT(s);
    T[self].pend &= ~BIT(s);
    if (act[s] == ACT_IGN)
      continue;
    if (act[s] == ACT_DFL)
      die_by_signal(s);
    hs[nh++] = s;
  }
  if (nh == 0)
    return 0;
  /* which handler runs last?  Linux: the lowest-numbered one (default) */
  last = choose(CP_SIGORDER, nh, self, 1);
  for (k = nh - 1; k >= 0; k--)
    if (k != last) {
      vtrace("   t%d: handler for signal %d\n", self, hs[k]);
      act[hs[k]](hs[k]);
    }
  vtrace("   t%d: handler for signal %d (last)\n", self, hs[last]);
  act[hs[last]](hs[last]);
  return nh;
}

int
vs_sigaction(int sig, const struct sigaction *a, struct sigaction *old)
{
  if (sig < 1 || sig > 63) {
    errno = EINVAL;
    return -1;
  }
  if (old) {
    memset(old, 0, sizeof *old);
    old->sa_handler = act[sig] == ACT_DFL ? SIG_DFL : act[sig] == ACT_IGN ? SIG_IGN : act[sig];
  }
  if (a) {
    if (a->sa_handler == SIG_DFL) act[sig] = ACT_DFL;
    else if (a->sa_handler == SIG_IGN) {
      act[sig] = ACT_IGN;
      proc_pend &= ~BIT(sig);
    }
    else act[sig] = a->sa_handler;
  }
  return 0;
}

int
vs_sigmask(int how, const sigset_t *set, sigset_t *old)
{
  int self = vs_self;
  if (old)
    mask2set(T[self].mask, old);
  if (set) {
    uint64_t m = set2mask(set);
    if (how == SIG_BLOCK) T[self].mask |= m;
    else if (how == SIG_UNBLOCK) T[self].mask &= ~m;
    else if (how == SIG_SETMASK) T[self].mask = m;
    else return EINVAL;
    deliver(self, T[self].mask);
  }
  return 0;
}

int
vs_procmask(int how, const sigset_t *set, sigset_t *old)
{
  int rc = vs_sigmask(how, set, old);
  if (rc) {
    errno = rc;
    return -1;
  }
  return 0;
}

int
vs_sigpending(sigset_t *set)
{
  mask2set(proc_pend | T[vs_self].pend, set);
  return 0;
}

int
vs_kill(pid_t pid, int sig)
{
  int self = vs_self;
  if (pid != getpid() || sig < 1 || sig > 63) {
    snprintf(vs_rec->note, sizeof vs_rec->note, "kill(%d,%d) not modelled", (int)pid, sig);
    finish(OC_UNMODELLED, 0, 254);
  }
  T[self].op = OP_KILL;
  T[self].obj = sig;
  sched_point(self);
  T[self].op = OP_NONE;
  vtrace("   t%d: kill(self, %d)\n", self, sig);
  SG_REL(&hb_sigobj);
  post_signal(sig);
  if (!(T[self].mask & BIT(sig)))
    deliver(self, T[self].mask);
  return 0;
}

int
vs_sigsuspend(const sigset_t *mask)
{
  int self = vs_self;
  T[self].susp_mask = set2mask(mask);
  T[self].op = OP_SUSPEND;
  T[self].obj = 0;
  for (;;) {
    sched_point(self);
    if (deliver(self, T[self].susp_mask) > 0)
      break;
    /* only ignored signals arrived: keep waiting */
  }
  T[self].op = OP_NONE;
  errno = EINTR;
  return -1;
}

/* ---- I/O ---------------------------------------------------------------- */

static int
env_applies(int fd)
{
  return !vs_cfg.env_fd_only || fd == 0 || fd == 1;
}

ssize_t
vs_read(int fd, void *buf, size_t n)
{
  int self = vs_self, kill_mode = 0;
  size_t want = n;
  ssize_t rc;

  T[self].op = OP_READ;
  T[self].obj = fd;
  sched_point(self);
  T[self].op = OP_NONE;

  if (vs_cfg.rfrag && want > vs_cfg.rfrag)
    want = vs_cfg.rfrag;
  if ((vs_cfg.fenv & 2) && n > 0) {
    int c = choose(CP_FENV, 3, self, 1);
    if (c == 1)
      finish(OC_SIGNAL, SIGKILL, 255);
    kill_mode = c == 2;
  }
  if (vs_cfg.renv && n > 0 && env_applies(fd)) {
    int kinds[4], k = 0, c;
    kinds[k++] = 0;
    if ((vs_cfg.renv & RENV_SHORT1) && want > 1) kinds[k++] = RENV_SHORT1;
    if ((vs_cfg.renv & RENV_HALF) && want > 3) kinds[k++] = RENV_HALF;
    if (vs_cfg.renv & RENV_EIO) kinds[k++] = RENV_EIO;
    c = choose(CP_RENV, k, self, 1);
    switch (kinds[c]) {
    case RENV_SHORT1: want = 1; break;
    case RENV_HALF: want = want / 2; break;
    case RENV_EIO:
      vtrace("   t%d: read(%d) -> EIO\n", self, fd);
      vs_rec->inv_flags |= 64;  /* an I/O error was injected */
      errno = EIO;
      return -1;
    }
  }
  rc = read(fd, buf, want);
  if (kill_mode)
    finish(OC_SIGNAL, SIGKILL, 255);
  return rc;
}

static void
thread_signal(int self, int sig)
{
  if (act[sig] == ACT_IGN)
    return;
  T[self].pend |= BIT(sig);
  if (!(T[self].mask & BIT(sig)))
    deliver(self, T[self].mask);
}

ssize_t
vs_write(int fd, const void *buf, size_t n)
{
  int self = vs_self, kill_mode = 0;
  size_t want = n;
  ssize_t rc;

  T[self].op = OP_WRITE;
  T[self].obj = fd;
  sched_point(self);
  T[self].op = OP_NONE;

  if (vs_cfg.wfrag && want > vs_cfg.wfrag)
    want = vs_cfg.wfrag;
  if ((vs_cfg.fenv & 2) && n > 0) {
    int c = choose(CP_FENV, 3, self, 1);
    if (c == 1)
      finish(OC_SIGNAL, SIGKILL, 255);
    kill_mode = c == 2;
  }
  if (vs_cfg.wenv && n > 0 && env_applies(fd)) {
    int kinds[8], k = 0, c;
    kinds[k++] = 0;
    if ((vs_cfg.wenv & WENV_SHORT1) && want > 1) kinds[k++] = WENV_SHORT1;
    if ((vs_cfg.wenv & WENV_HALF) && want > 3) kinds[k++] = WENV_HALF;
    if (vs_cfg.wenv & WENV_EIO) kinds[k++] = WENV_EIO;
    if (vs_cfg.wenv & WENV_ENOSPC) kinds[k++] = WENV_ENOSPC;
    if (vs_cfg.wenv & WENV_EPIPE) kinds[k++] = WENV_EPIPE;
    if (vs_cfg.wenv & WENV_EFBIG) kinds[k++] = WENV_EFBIG;
    c = choose(CP_WENV, k, self, 1);
    switch (kinds[c]) {
    case WENV_SHORT1: want = 1; break;
    case WENV_HALF: want = want / 2; break;
    case WENV_EIO: vtrace("   t%d: write(%d) -> EIO\n", self, fd); vs_rec->inv_flags |= 64; errno = EIO; return -1;
    case WENV_ENOSPC: vtrace("   t%d: write(%d) -> ENOSPC\n", self, fd); vs_rec->inv_flags |= 64; errno = ENOSPC; return -1;
    case WENV_EPIPE:
      vs_rec->inv_flags |= 64;
      vtrace("   t%d: write(%d) -> EPIPE\n", self, fd);
      thread_signal(self, SIGPIPE);
      errno = EPIPE;
      return -1;
    case WENV_EFBIG:
      vs_rec->inv_flags |= 64;
      vtrace("   t%d: write(%d) -> EFBIG\n", self, fd);
      thread_signal(self, SIGXFSZ);
      errno = EFBIG;
      return -1;
    }
  }
  rc = write(fd, buf, want);
  if (kill_mode)
    finish(OC_SIGNAL, SIGKILL, 255);
  return rc;
}

/* stderr is fully buffered by lbzip2 (setbuf) and flushed once per message:
   the flush is where a failing log device shows.  inv_flags bit 128 tells the
   oracle that diagnostics could not be delivered in this execution. */
static int stderr_broken;

int
vs_fflush(FILE *f)
{
  int self = vs_self;
  if (f != stderr || !vs_cfg.senv)
    return fflush(f);
  if (!stderr_broken) {
    int kinds[3], k = 0, c;
    kinds[k++] = 0;
    if (vs_cfg.senv & 1) kinds[k++] = EPIPE;
    if (vs_cfg.senv & 2) kinds[k++] = EIO;
    c = choose(CP_SENV, k, self, 1);
    if (kinds[c] == 0)
      return fflush(f);
    stderr_broken = kinds[c];
    vs_rec->inv_flags |= 128;
    vtrace("   t%d: fflush(stderr) -> errno %d\n", self, stderr_broken);
    if (stderr_broken == EPIPE)
      thread_signal(self, SIGPIPE);
  }
  __fpurge(f);
  errno = stderr_broken;
  return EOF;
}

int
vs_isatty(int fd)
{
  (void)fd;
  errno = ENOTTY;
  return 0;
}

/* ---- heap accounting and per-execution resources ------------------------- */

/* Live blocks are kept in a pointer table so that whatever an execution still
   holds when it ends (lbzip2 ends with _exit, and failing runs abandon their
   threads) can be given back in in-process mode.  Only the thread holding the
   turn allocates, so no locking is needed. */
#define HT_BITS 14
#define HT_SIZE (1u << HT_BITS)
static void *HT[HT_SIZE];
static unsigned ht_n;

static unsigned
ht_slot(void *p)
{
  return (unsigned)(((uintptr_t)p >> 4) * 2654435761u) >> (32 - HT_BITS);
}

static void
ht_add(void *p)
{
  unsigned i = ht_slot(p);
  if (ht_n > HT_SIZE / 2)
    abort();
  while (HT[i])
    i = (i + 1) & (HT_SIZE - 1);
  HT[i] = p;
  ht_n++;
}

static int
ht_del(void *p)
{
  unsigned i = ht_slot(p), j, k;
  while (HT[i] != p) {
    if (!HT[i])
      return 0;
    i = (i + 1) & (HT_SIZE - 1);
  }
  /* backward-shift deletion */
  j = i;
  for (;;) {
    HT[i] = NULL;
    for (;;) {
      j = (j + 1) & (HT_SIZE - 1);
      if (!HT[j]) {
        ht_n--;
        return 1;
      }
      k = ht_slot(HT[j]);
      if ((i <= j) ? (i < k && k <= j) : (i < k || k <= j))
        continue;
      break;
    }
    HT[i] = HT[j];
    i = j;
  }
}

/* Every block handed to lbzip2 carries a 16-byte header (size, magic) and a
   16-byte canary behind the user area.  lbzip2's fixed-capacity priority
   queues have no capacity field (enqueue writes root[size++]), so an overrun
   by one element lands in the canary; it is checked when the block is freed
   and, for blocks still live, when the execution ends (inv_flags bit 256). */
#define VS_HDR 16
#define VS_CAN 16
/* under ASan the canary is poisoned while the block is live, so that a READ behind the end of a block
   (which leaves the canary intact) is reported as well */
#ifdef VS_ASAN
void __asan_poison_memory_region(void const volatile *addr, size_t size);
void __asan_unpoison_memory_region(void const volatile *addr, size_t size);
#define BIG_POISON(p, n) __asan_poison_memory_region(p, n)
#define BIG_UNPOISON(p, n) __asan_unpoison_memory_region(p, n)
#else
#define BIG_POISON(p, n) ((void)0)
#define BIG_UNPOISON(p, n) ((void)0)
#endif
#define VS_MAGIC 0x76734d61u
struct vs_hdr { uint64_t size; uint32_t magic; uint32_t pad; };

static void
canary_check(void *user)
{
  struct vs_hdr *h = (struct vs_hdr *)((char *)user - VS_HDR);
  unsigned char *c;
  unsigned i;
  BIG_UNPOISON(h, VS_HDR);
  if (h->magic != VS_MAGIC) {
    if (!(vs_rec->inv_flags & 256))
      snprintf(vs_rec->note, sizeof vs_rec->note, "heap block %p: header overwritten (write in front of an allocation)", user);
    vs_rec->inv_flags |= 256;
    return;
  }
  c = (unsigned char *)user + h->size;
  BIG_UNPOISON(c, VS_CAN);
  for (i = 0; i < VS_CAN; i++)
    if (c[i] != (unsigned char)(0xA5 ^ i)) {
      if (!(vs_rec->inv_flags & 256))
        snprintf(vs_rec->note, sizeof vs_rec->note, "heap block of %llu bytes overrun: byte %u behind its end was overwritten",
                 (unsigned long long)h->size, i);
      vs_rec->inv_flags |= 256;
      return;
    }
}

/* Big blocks (the decoder's 3.6 MB array, encoder state) are kept by the
   harness and handed out again instead of going back to the allocator: glibc
   would map/unmap them (see mallopt in vs_inproc_init), and the
   AddressSanitizer allocator maps, poisons and unmaps every large chunk, which
   made the asan variant 50x slower than the code under test.  Under ASan
   (-DVS_ASAN) a kept block is poisoned while nobody owns it, so use after free
   and overruns are still reported. */
#define NBIG 48
#define BIG_MIN (512u << 10)
static struct { char *b; size_t total; int busy; } BIGC[NBIG];

static char *
raw_get(size_t total)
{
  int i;
#ifndef VS_TSAN   /* ThreadSanitizer resets its shadow state in malloc/free: reuse without them would look like races */
  if (total >= BIG_MIN && vs_inproc) {
    for (i = 0; i < NBIG; i++)
      if (BIGC[i].b && !BIGC[i].busy && BIGC[i].total == total) {
        BIGC[i].busy = 1;
        BIG_UNPOISON(BIGC[i].b, total);
        return BIGC[i].b;
      }
    for (i = 0; i < NBIG; i++)
      if (!BIGC[i].b) {
        BIGC[i].b = malloc(total);
        if (!BIGC[i].b)
          return NULL;
        BIGC[i].total = total;
        BIGC[i].busy = 1;
        return BIGC[i].b;
      }
  }
#endif
  return malloc(total);
}

static void
raw_put(char *b)
{
  int i;
  for (i = 0; i < NBIG; i++)
    if (BIGC[i].b == b) {
      BIGC[i].busy = 0;
      BIG_POISON(b, BIGC[i].total);
      return;
    }
  free(b);
}

void *
vs_malloc(size_t n)
{
  char *b = raw_get(n + VS_HDR + VS_CAN);
  void *p = NULL;
  if (b) {
    struct vs_hdr *h = (struct vs_hdr *)b;
    unsigned i;
    /* charge what the allocator says the block is worth, so that vs_free can
       give back exactly the same amount */
    uint64_t l = __atomic_add_fetch(&heap_live, malloc_usable_size(b), __ATOMIC_RELAXED);
    if (l > vs_rec->heap_peak)
      vs_rec->heap_peak = l;
    h->size = n;
    h->magic = VS_MAGIC;
    h->pad = 0;
    p = b + VS_HDR;
    for (i = 0; i < VS_CAN; i++)
      ((unsigned char *)p)[n + i] = (unsigned char)(0xA5 ^ i);
    BIG_POISON((char *)p + n, VS_CAN);
    BIG_POISON(b, VS_HDR);          /* reads in front of the block as well */
    ht_add(p);
  }
  return p;
}

void
vs_free(void *p)
{
  if (!p)
    return;
  if (ht_del(p)) {
    char *b = (char *)p - VS_HDR;
    canary_check(p);
    __atomic_sub_fetch(&heap_live, malloc_usable_size(b), __ATOMIC_RELAXED);
    ((struct vs_hdr *)b)->magic = 0;
    raw_put(b);
  }
  else {
    /* not ours (allocated by libc on lbzip2's behalf): just free it */
    free(p);
  }
}


/* File operations of the main thread (C16): each one is a scheduling point (so
   that an external signal can arrive just before it) and, when asked for, an
   environment choice: the call fails with one of the errnos meaningful for
   it, or the process is killed (SIGKILL) just before / just after it. */
enum { FK_OPEN_IN, FK_OPEN_OUT, FK_CLOSE, FK_UNLINK, FK_FCHOWN, FK_FCHMOD, FK_FUTIMENS, FK_LSTAT, FK_READ, FK_WRITE };
static const int fk_errnos[][4] = {
  /* OPEN_IN  */ { EACCES, 0 },
  /* OPEN_OUT */ { EEXIST, EACCES, ENOSPC, 0 },
  /* CLOSE    */ { EIO, 0 },
  /* UNLINK   */ { EPERM, 0 },
  /* FCHOWN   */ { EPERM, 0 },
  /* FCHMOD   */ { EPERM, 0 },
  /* FUTIMENS */ { EPERM, 0 },
  /* LSTAT    */ { EACCES, 0 },
  /* READ     */ { 0 },
  /* WRITE    */ { 0 },
};
#define FA_KILL_BEFORE (-1)
#define FA_KILL_AFTER (-2)

/* returns 0 (do it), an errno (fail with it), FA_KILL_AFTER (do it, then die);
   FA_KILL_BEFORE never returns */
static int
fileop(int kind, int obj)
{
  int self = vs_self, acts[8], n = 0, i, c;
  T[self].op = OP_FILE;
  T[self].obj = kind * 100 + obj;
  sched_point(self);
  T[self].op = OP_NONE;
  if (!vs_cfg.fenv)
    return 0;
  acts[n++] = 0;
  if (vs_cfg.fenv & 1)
    for (i = 0; fk_errnos[kind][i]; i++)
      acts[n++] = fk_errnos[kind][i];
  if (vs_cfg.fenv & 2) {
    acts[n++] = FA_KILL_BEFORE;
    acts[n++] = FA_KILL_AFTER;
  }
  c = choose(CP_FENV, n, self, 1);
  if (acts[c] == FA_KILL_BEFORE) {
    vtrace("   t%d: SIGKILL before file operation %d\n", self, kind);
    finish(OC_SIGNAL, SIGKILL, 255);
  }
  if (acts[c])
    vtrace("   t%d: file operation %d -> action %d\n", self, kind, acts[c]);
  return acts[c];
}

static void
kill_after(int a)
{
  if (a == FA_KILL_AFTER)
    finish(OC_SIGNAL, SIGKILL, 255);
}

int
vs_open(const char *path, int flags, ...)
{
  int fd, a;
  mode_t mode = 0;
  if (flags & O_CREAT) {
    va_list ap;
    va_start(ap, flags);
    mode = va_arg(ap, int);
    va_end(ap);
  }
  a = fileop((flags & O_CREAT) ? FK_OPEN_OUT : FK_OPEN_IN, 0);
  if (a > 0) {
    errno = a;
    return -1;
  }
  fd = open(path, flags, mode);
  if (fd >= 0 && nfds < MAXFD)
    FDS[nfds++] = fd;
  kill_after(a);
  return fd;
}

int
vs_close(int fd)
{
  int i, a, rc;
  a = fileop(FK_CLOSE, fd);
  if (a > 0) {
    /* the descriptor is gone even when close() reports an error */
    if (!(vs_inproc && fd >= 0 && fd <= 2)) {
      for (i = 0; i < nfds; i++)
        if (FDS[i] == fd) { FDS[i] = FDS[--nfds]; break; }
      close(fd);
    }
    errno = a;
    return -1;
  }
  if (vs_inproc && fd >= 0 && fd <= 2) {
    kill_after(a);
    return 0;                   /* the executor keeps its standard descriptors */
  }
  for (i = 0; i < nfds; i++)
    if (FDS[i] == fd) {
      FDS[i] = FDS[--nfds];
      break;
    }
  rc = close(fd);
  kill_after(a);
  return rc;
}

int
vs_unlink(const char *path)
{
  int a = fileop(FK_UNLINK, 0), rc;
  if (a > 0) {
    vs_rec->inv_flags |= 32;    /* tells the oracle that a removal was made to fail */
    errno = a;
    return -1;
  }
  rc = unlink(path);
  kill_after(a);
  return rc;
}

int
vs_fchown(int fd, uid_t u, gid_t g)
{
  int a = fileop(FK_FCHOWN, fd), rc;
  if (a > 0) { errno = a; return -1; }
  rc = fchown(fd, u, g);
  kill_after(a);
  return rc;
}

int
vs_fchmod(int fd, mode_t m)
{
  int a = fileop(FK_FCHMOD, fd), rc;
  if (a > 0) { errno = a; return -1; }
  rc = fchmod(fd, m);
  kill_after(a);
  return rc;
}

int
vs_futimens(int fd, const struct timespec ts[2])
{
  int a = fileop(FK_FUTIMENS, fd), rc;
  if (a > 0) { errno = a; return -1; }
  rc = futimens(fd, ts);
  kill_after(a);
  return rc;
}

int
vs_lstat(const char *path, struct stat *sb)
{
  int a = fileop(FK_LSTAT, 0), rc;
  if (a > 0) { errno = a; return -1; }
  rc = lstat(path, sb);
  kill_after(a);
  return rc;
}

/* ---- hook H2: scheduler events ------------------------------------------- */

/* index of an event name in vs_record.ev_count[] (also printed by explore.c) */
const char *const vs_event_names[16] = {
  "reorder", "parse", "emit", "retrieve", "scan", "transmit", "collect", "collect_seq",
  "x-scan-candidate", "x-scan-known", "x-parse-adopt", "x-parse-discard", "x-retr-abort",
  "x-reorder-reject", "x-advance-drop", "x-eof-drop"
};

void
verif_event(const char *name)
{
  int i;
  for (i = 0; i < 16; i++)
    if (!strcmp(name, vs_event_names[i])) {
      vs_rec->ev_count[i]++;
      return;
    }
}

/* ---- start -------------------------------------------------------------- */

void
vs_begin(void)
{
  memset(T, 0, sizeof T);
  nthreads = 1;
  T[0].used = 1;
  T[0].real = pthread_self();
  T[0].op = OP_NONE;
  vs_self = 0;
  cur = 0;
  nmx = 0;
  proc_pend = 0;
  memset(act, 0, sizeof act);
  if (vs_cfg.ign_sigpipe) {
    act[SIGPIPE] = ACT_IGN;
    act[SIGXFSZ] = ACT_IGN;
  }
  HB_BEGIN();
  sigs_sent = 0;
  prio_n = 0;
  if (vs_cfg.policy >= 3 && vs_cfg.nprio >= 1 && vs_cfg.nprio <= 7)
    prio_decode(vs_cfg.nprio, vs_cfg.policy - 3);
  stderr_broken = 0;
  T[0].mask = vs_cfg.inherit_mask;
  spurious_left = vs_cfg.spurious;
  demote_left = vs_cfg.demote;
  devpos = 0;
  heap_live = 0;
}

/* ---- in-process executions ------------------------------------------------ */

/* writable data of the lbzip2 objects: their .data/.bss sections are renamed
   to lbz_data/lbz_bss at build time (objcopy), so the linker provides these */
extern char __start_lbz_data[], __stop_lbz_data[], __start_lbz_bss[], __stop_lbz_bss[];
static char *snap_data, *snap_bss;

/* A sanitizer runtime intercepts memcpy() even when called from here and
   objects to copying across the red zones between instrumented globals, so
   the snapshot is copied by hand. */
static void
raw_copy(char *dst, const char *src, size_t n)
{
  size_t i;
  for (i = 0; i < n; i++) {
    dst[i] = src[i];
    __asm__ volatile("" ::: "memory");
  }
}

static void *
main_wrapper(void *a)
{
  int i, rc;
  char **av = vs_malloc((l_argc + 1) * sizeof *av);
  (void)a;
  for (i = 0; i < l_argc; i++) {
    av[i] = vs_malloc(strlen(l_argv[i]) + 1);
    strcpy(av[i], l_argv[i]);
  }
  av[l_argc] = NULL;
  heap_base = heap_live;
  rc = lbzip2_main(l_argc, av);
  finish(OC_EXIT, rc, rc);
  return NULL;
}

void
vs_inproc_init(int argc, char **argv)
{
  if (getenv("VS_SPIN"))
    spin_iters = atoi(getenv("VS_SPIN"));
  /* keep big blocks (encoder state, 3.6 MB decoder arrays) inside the heap
     instead of mapping and unmapping them in every execution: fresh pages are
     expensive here and the executions reuse the same few sizes */
  mallopt(M_MMAP_THRESHOLD, 1 << 30);
  mallopt(M_TRIM_THRESHOLD, 1 << 30);
  mallopt(M_TOP_PAD, 64 << 20);
  size_t nd = __stop_lbz_data - __start_lbz_data, nb = __stop_lbz_bss - __start_lbz_bss;
  vs_inproc = 1;
  l_argc = argc;
  l_argv = argv;
  snap_data = malloc(nd + 1);
  snap_bss = malloc(nb + 1);
  raw_copy(snap_data, __start_lbz_data, nd);
  raw_copy(snap_bss, __start_lbz_bss, nb);
}

void
vs_inproc_set_args(int argc, char **argv)
{
  l_argc = argc;
  l_argv = argv;
}

/* run one execution with vs_cfg; returns when every pool thread is back */
void
vs_inproc_run(void)
{
  unsigned i;
  int b;

  raw_copy(__start_lbz_data, snap_data, __stop_lbz_data - __start_lbz_data);
  raw_copy(__start_lbz_bss, snap_bss, __stop_lbz_bss - __start_lbz_bss);
  vs_begin();
  __atomic_store_n(&ending, 0, __ATOMIC_SEQ_CST);
  if (pool_need(0) != 0)
    abort();
  T[0].real = pool[0];
  T[0].fn = main_wrapper;
  T[0].arg = NULL;
  __atomic_store_n(&busy, 1, __ATOMIC_SEQ_CST);
  TS_REL(&ts_epoch_start);
  TS_REL(&ts_thread[0]);
  fwake(&GO[0]);
  while ((b = __atomic_load_n(&busy, __ATOMIC_SEQ_CST)) != 0)
    syscall(SYS_futex, &busy, FUTEX_WAIT_PRIVATE, b, NULL, NULL, 0);

  TS_ACQ(&ts_epoch_end);

  /* give back what the execution still held */
  for (i = 0; i < HT_SIZE && ht_n > 0; i++)
    if (HT[i]) {
      canary_check(HT[i]);
      raw_put((char *)HT[i] - VS_HDR);
      HT[i] = NULL;
      ht_n--;
    }
  ht_n = 0;
  while (nfds > 0)
    close(FDS[--nfds]);
  __fpurge(stderr);
  __fpurge(stdout);
}


/* ---- happens-before race detector for lbzip2's globals (variant `hbrace') ----
 *
 * The lbzip2 sources are compiled with clang -fsanitize=thread, which makes
 * every load and store call __tsan_readN/__tsan_writeN; instead of the
 * ThreadSanitizer runtime these are implemented here (-DVS_HB).  Vector
 * clocks follow exactly lbzip2's own synchronisation as the scheduler model
 * sees it (mutex unlock -> lock, flockfile, thread creation, join, kill() ->
 * signal delivery); every access to a writable global of lbzip2 (sections
 * lbz_data/lbz_bss) is checked against the last write and the reads since
 * (DJIT+).  Same verdicts as ThreadSanitizer for these variables, but it runs
 * in the fast in-process executor, so that the schedule explorations that
 * are too expensive under ThreadSanitizer (one forked process per execution)
 * can be repeated with a race oracle.  Heap objects are covered by the tsan
 * variant only.  inv_flags bit 512 = race found; note = description.
 */
#ifdef VS_HB
extern char __start_lbz_data[], __stop_lbz_data[], __start_lbz_bss[], __stop_lbz_bss[];

struct hb_var {
  uintptr_t addr;
  uint32_t gen, reported;
  int w_tid;
  uint32_t w_clk;
  uintptr_t w_pc;
  uint32_t r_clk[VS_MAXT];
  uintptr_t r_pc[VS_MAXT];
};
#define HB_VARS 2048
#define HB_OBJS 128
static struct hb_var *HBV;
static uint32_t hb_gen;
static uint32_t hb_vc[VS_MAXT][VS_MAXT];
static struct { void *addr; uint32_t vc[VS_MAXT]; } hb_obj[HB_OBJS];
static int hb_nobj;

static void
hb_begin(void)
{
  if (!HBV)
    HBV = calloc(HB_VARS, sizeof *HBV);
  hb_gen++;
  memset(hb_vc, 0, sizeof hb_vc);
  hb_nobj = 0;
  hb_vc[0][0] = 1;
}

static int
hb_find(void *a)
{
  int i;
  if (a == (void *)&ts_epoch_start || a == (void *)&ts_epoch_end)
    return -1;
  for (i = 0; i < hb_nobj; i++)
    if (hb_obj[i].addr == a)
      return i;
  if (hb_nobj == HB_OBJS)
    abort();
  hb_obj[hb_nobj].addr = a;
  memset(hb_obj[hb_nobj].vc, 0, sizeof hb_obj[hb_nobj].vc);
  return hb_nobj++;
}

static void
hb_release(void *a)
{
  int self = vs_self, i, o = hb_find(a);
  if (o < 0)
    return;
  for (i = 0; i < VS_MAXT; i++)
    if (hb_vc[self][i] > hb_obj[o].vc[i])
      hb_obj[o].vc[i] = hb_vc[self][i];
  hb_vc[self][self]++;
}

static void
hb_acquire(void *a)
{
  int self = vs_self, i, o = hb_find(a);
  if (o < 0)
    return;
  if (hb_vc[self][self] == 0)
    hb_vc[self][self] = 1;
  for (i = 0; i < VS_MAXT; i++)
    if (hb_obj[o].vc[i] > hb_vc[self][i])
      hb_vc[self][i] = hb_obj[o].vc[i];
}

static void
hb_report(struct hb_var *v, int a, int a_write, uintptr_t pca, int b, int b_write, uintptr_t pcb)
{
  if (v->reported)
    return;
  v->reported = 1;
  if (!(vs_rec->inv_flags & 512))
    snprintf(vs_rec->note, sizeof vs_rec->note,
             "data race on global at %p: %s by t%d (pc %p) and %s by t%d (pc %p) are not ordered by "
             "lbzip2's synchronisation (mutexes, thread creation/join, signals)",
             (void *)v->addr, a_write ? "write" : "read", a, (void *)pca, b_write ? "write" : "read", b, (void *)pcb);
  vs_rec->inv_flags |= 512;
}

static void
hb_access(uintptr_t a, int is_write, uintptr_t pc)
{
  struct hb_var *v = NULL;
  unsigned h, k;
  int self, x;
  if (!((a >= (uintptr_t)__start_lbz_data && a < (uintptr_t)__stop_lbz_data) ||
        (a >= (uintptr_t)__start_lbz_bss && a < (uintptr_t)__stop_lbz_bss)) || !HBV)
    return;
  self = vs_self;
  if (hb_vc[self][self] == 0)
    hb_vc[self][self] = 1;
  h = (unsigned)((a * 0x9E3779B97F4A7C15ull) >> 53) & (HB_VARS - 1);
  for (k = 0; k < HB_VARS; k++, h = (h + 1) & (HB_VARS - 1)) {
    v = &HBV[h];
    if (v->gen != hb_gen) {
      memset(v, 0, sizeof *v);
      v->gen = hb_gen;
      v->addr = a;
      v->w_tid = -1;
      break;
    }
    if (v->addr == a)
      break;
  }
  if (k == HB_VARS)
    return;                     /* table full: stop tracking new addresses */
  if (v->w_tid >= 0 && v->w_tid != self && v->w_clk > hb_vc[self][v->w_tid])
    hb_report(v, v->w_tid, 1, v->w_pc, self, is_write, pc);
  if (is_write) {
    for (x = 0; x < nthreads; x++)
      if (x != self && v->r_clk[x] > hb_vc[self][x])
        hb_report(v, x, 0, v->r_pc[x], self, 1, pc);
    v->w_tid = self;
    v->w_clk = hb_vc[self][self];
    v->w_pc = pc;
    memset(v->r_clk, 0, sizeof v->r_clk);
  }
  else {
    v->r_clk[self] = hb_vc[self][self];
    v->r_pc[self] = pc;
  }
}

#define HB_RA ((uintptr_t)__builtin_return_address(0))
void __tsan_init(void) {}
void __tsan_func_entry(void *pc) { (void)pc; }
void __tsan_func_exit(void) {}
void __tsan_read1(void *a) { hb_access((uintptr_t)a, 0, HB_RA); }
void __tsan_read2(void *a) { hb_access((uintptr_t)a, 0, HB_RA); }
void __tsan_read4(void *a) { hb_access((uintptr_t)a, 0, HB_RA); }
void __tsan_read8(void *a) { hb_access((uintptr_t)a, 0, HB_RA); }
void __tsan_read16(void *a) { hb_access((uintptr_t)a, 0, HB_RA); hb_access((uintptr_t)a + 8, 0, HB_RA); }
void __tsan_write1(void *a) { hb_access((uintptr_t)a, 1, HB_RA); }
void __tsan_write2(void *a) { hb_access((uintptr_t)a, 1, HB_RA); }
void __tsan_write4(void *a) { hb_access((uintptr_t)a, 1, HB_RA); }
void __tsan_write8(void *a) { hb_access((uintptr_t)a, 1, HB_RA); }
void __tsan_write16(void *a) { hb_access((uintptr_t)a, 1, HB_RA); hb_access((uintptr_t)a + 8, 1, HB_RA); }
void __tsan_unaligned_read2(void *a) { hb_access((uintptr_t)a, 0, HB_RA); }
void __tsan_unaligned_read4(void *a) { hb_access((uintptr_t)a, 0, HB_RA); }
void __tsan_unaligned_read8(void *a) { hb_access((uintptr_t)a, 0, HB_RA); }
void __tsan_unaligned_write2(void *a) { hb_access((uintptr_t)a, 1, HB_RA); }
void __tsan_unaligned_write4(void *a) { hb_access((uintptr_t)a, 1, HB_RA); }
void __tsan_unaligned_write8(void *a) { hb_access((uintptr_t)a, 1, HB_RA); }
void __tsan_vptr_update(void **a, void *b) { (void)a; (void)b; }
void __tsan_vptr_read(void **a) { (void)a; }
#endif
