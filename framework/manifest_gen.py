#!/usr/bin/env python3
"""Writes /verif/MANIFEST.json from the table below (one place to edit)."""
import json, os, sys
HERE = os.path.dirname(os.path.abspath(__file__))
VERIF = os.path.dirname(HERE)

CHECKS = {
 'C11': dict(cat='model_checking', engine='lbzx (E1/E2)', ref='DESIGN.md §5 C11',
   technique='stateless model checking of the real scheduler code: exhaustive enumeration of thread interleavings under a controlled scheduler (delay-bounded from canonical schedulers; all strict-priority orders; all priority-change points, i.e. exhaustive PCT)',
   text='Every execution of the real process.c/compress.c/expand.c task schedulers (a) under every strict-priority scheduler (all K! priority orders of the threads), (b) with at most d deviations (quick 2, thorough 3 plus one spurious wake-up) from three canonical schedulers, (c) under strict priorities with 1 (all 720 orders, W=3) or 2 (orders up to worker symmetry) priority-change points on streams with planted spurious candidates and multi-buffer blocks; for compression (default and --sequential), decompression (stock and tiny I/O granularities, more tiny blocks than the 17W-3 queue capacity) and -cdf copying, W<=2 (thorough 3). Deadlock = no enabled thread, livelock = horizon; at every scheduling point slot counters and heap canaries (fixed-capacity queue overruns), at the end exact output (block order), status 0, heap released.',
   note='Trusted: the 1100-line vsched scheduler/signal model; lbzip2 data-race freedom (C12) so that scheduling at synchronisation points is enough; bounds W<=3, deviations as reported in the evidence.'),
 'C03': dict(cat='model_checking', engine='lbzx (E1/E2) + real binary', ref='DESIGN.md §5 C03',
   technique='stateless model checking: exhaustive delay-bounded enumeration of thread interleavings and of read()/write() fragmentation answers on the real code, one-outcome oracle',
   text='For each (input, level, mode) one expected compressed byte string is fixed; every execution under every strict-priority scheduler and with at most d deviations (scheduling choices and short read()/write() answers share the budget; quick d=2, thorough d=3) for W in 1..3 (4), whole-run fragmentation policies, and the real binary on stdout / FILE operand / -c FILE / fragmented pipe (also for inputs smaller than the block size at levels >= 2 whose run-length coding expands) must reproduce exactly that string.',
   note='Trusted: vsched; libbz2 judging that the expected string is a valid compression; bounds as reported.'),
 'C12': dict(cat='model_checking', engine='lbzx tsan variant', ref='DESIGN.md §5 C12',
   technique='happens-before race detectors (own vector-clock detector on clang TSan instrumentation; ThreadSanitizer) as per-execution oracles inside exhaustive bounded schedule enumeration under the controlled scheduler',
   text="All four pipelines (compress, --sequential, decompress incl. tiny granularities/bad CRC/-t/-v, -cdf copy), W up to 3 (4): leg hbrace = every strict-priority scheduler and every execution with at most d deviations (quick 2, thorough 3) of a build whose loads/stores call our vector-clock happens-before detector for lbzip2's globals, plus streams with trailing garbage at every alignment (length mod 4 x garbage length x input block size); leg tsan = every execution with d <= 1 (2) of a ThreadSanitizer build told exactly lbzip2's own mutex/create/join edges. Any unordered conflicting access pair is a violation.",
   note='Trusted: ThreadSanitizer happens-before detection with finite history; SC interleavings; execution boundaries of the in-process executor are barriers.'),
 'C13': dict(cat='model_checking', engine='lbzx with malloc accounting', ref='DESIGN.md §5 C13',
   technique='invariant checking on every state of exhaustively enumerated bounded schedules: live heap bytes <= linear bound(W)',
   text="At every scheduling point of every execution (all strict-priority schedulers; <= d deviations, quick 1, thorough 2) live heap bytes must stay below the linear-in-W bound the slot discipline allows (computed from the running program's slot counts and buffer sizes), slot totals within twice the documented per-worker constants, and at a successful exit every heap block must have been released (a block lost per compressed block or per spurious candidate grows with the input); inputs: zero bombs, incompressible blocks, compression shapes, streams with spurious block headers and complete planted blocks; canonical runs on inputs growing to 640 MB decoded and 96 chunks must not raise the peak.",
   note='Live heap bytes stand in for RSS; thread stacks fixed; fragmentation not modelled.'),
 'C19': dict(cat='model_checking', engine='lbzx (E1/E2)', ref='DESIGN.md §5 C19',
   technique='stateless model checking of the 3-thread copy pipeline: exhaustive enumeration of interleavings and short-read answers up to a deviation bound',
   text='Every execution with <= d deviations (quick 2 for all inputs and 3 for the small/header inputs, thorough 4) of main/reader/writer scheduling and short reads, for all lengths 0..12 and around 1x/2x/3x the 64 KiB buffer, with every near-miss of the BZh[1-9] magic as prefix; output must equal the input, status 0, stderr empty, termination; inputs that do start with a stream header must end exactly as under plain -d; the same pass-through as second operand after a decompressed, copied, empty or missing first operand.',
   note='Pipe fragmentation is modelled as read() returning fewer bytes than asked; vsched trusted.'),
 'C01': dict(cat='model_checking', engine='codecx (E6) + lbzx batch + lbzx explorer (E1/E2)', ref='DESIGN.md §5 C01',
   technique='bounded-exhaustive enumeration of inputs x block capacities through the real codec chain (round-trip oracle) plus stateless model checking (delay-bounded schedule enumeration) of whole-program compression and decompression runs',
   text='(a) every string over {a,b} up to length 10 (thorough 13), over {a,b,c} up to 6 (8), run families around the 4/259 limits and every alphabet size, for every block capacity, through collect->encode->transmit->parse->retrieve->decode->emit; (a2) divbwt() against the sorted cyclic rotations (prefix-doubling reference) on every string over {a,b} up to 16 (20), {a,b,c} up to 10 (12), powers of every word over {a,b} of length <= 7 (9) with no/one changed byte, every prefix of four automatic words up to 1500 (6000), 256-symbol sequences and run blocks; (b) the compression corpus (kinds corpus, all levels, both modes, block-boundary families, sweeps) x W, each output decompressed again by lbzip2 with another W; (c) every execution with <= d deviations (quick 2, thorough 3; scheduling choices and short writes) of compression runs (each distinct output decompressed) and of a decompression run; whole-run write fragmentation in both directions. Oracle: bytes back == input, status 0, stderr empty.',
   note='Unbounded "every input" is decided for the enumerated scopes only; vsched trusted for (b),(c).'),
 'C02': dict(cat='exploration', engine='lbzx batch + bzref inspector (E3) + libbz2', ref='DESIGN.md §5 C02',
   technique='bounded-exhaustive enumeration of inputs/levels/modes through the real compressor; every produced stream walked bit by bit by an independent inspector (reference model of the format) and decoded by libbz2',
   text='Every stream produced for the compression corpus (all levels, default and --sequential, runs meeting the block end from both sides, alphabet sweep 1..148 forcing the one-table + dummy-table case, length sweep covering every padding amount, all strings over {a,b} to length 7 (10); half of the multi-worker runs write to an output that takes at most 4093 bytes per write()) is decoded by libbz2 to the input and inspected: header digit, per-block RLE size <= N*100000, block and stream CRCs, no randomisation, primary index, 2..6 tables all complete with lengths 1..20 reached by in-range delta steps, selector counts, no trailing bytes.',
   note='Trusted: bzref inspector (cross-checked with libbz2). Scope: the enumerated inputs.'),
 'C04': dict(cat='model_checking', engine='codecx (E6) + lbzx batch + refpack reference model', ref='DESIGN.md §5 C04',
   technique='explicit enumeration of collect() operation sequences (inputs x capacities x every cut into <= 3 calls) on the real resumable state machine against a reference greedy packer; whole-program block lists against the same reference',
   text='(a) collect() as a state machine: all strings over small alphabets, run families around 4/259, capacities 1..40, 255..270, 515..525, every cut of the input into up to three calls; after every call consumed count, block-full flag, block bytes and CRC equal the reference packer; canonical (rle_state, continues-run, room) states are counted. (b) whole program: for every (input, level, mode) of the compression corpus (standard input) and for small FILE operands whose run-length coding is longer than the file (levels 1, 2, 9, both modes) the list of (RLE size, CRC) per block equals the reference packing of the whole input (--sequential) or of N*100000-byte pieces (default).',
   note='Trusted: refpack.c (84 lines, written from the statement); bzref for reading block sizes/CRCs back.'),
 'C05': dict(cat='exploration', engine='bzgen (E4) -> lbzx batch (E1) vs bzref (E3)', ref='DESIGN.md §5 C05',
   technique='bounded-exhaustive differential checking: generator-built streams over every degree of freedom of the format plus all single-bit/truncation mutants, real lbzip2 -d against an independent strict reference decoder',
   text='For every candidate (generator-built base streams of families A..J: small plaintexts, alphabet sizes, capacity limits, primary index, randomised blocks, missing run counts, every complete code over small alphabets, incomplete/oversubscribed tables, 20-bit ladder, delta paths with excursions to 0/21, 2..6 tables x selector sequences, surplus selectors, 8 bit alignments, concatenations, trailing data; plus every single-bit flip and truncation of the small ones and field-aware mutants of the others), under W=1 stock and W=2 tiny I/O granularity: exit 0 implies the strict reference accepts and the bytes are equal.',
   note='Trusted: bzref (agreed with libbz2 on every candidate of the run, else HARNESS-ERROR). Scope: within one bit-level deviation / truncation of a generated valid stream.'),
 'C06': dict(cat='exploration', engine='bzgen (E4) -> lbzx batch (E1) vs bzref (E3)', ref='DESIGN.md §5 C06',
   technique='bounded-exhaustive enumeration of conforming streams over the format\'s degrees of freedom, real lbzip2 -d against the generator\'s plaintext / reference decoder',
   text='Every candidate of the C05 enumeration that the strict reference accepts (and that is not one of the two documented exceptions) must be decoded with status 0, equal bytes and empty stderr, for W=1 stock and W=2 tiny granularity; includes randomised blocks, different levels concatenated, all 8 alignments, 20-bit codes, 2..6 tables with all selector triples, surplus selectors up to 32767, primary index at the end.',
   note='Same trusted base as C05. bzip2-produced files at every level come from libbz2 via Python.'),
 'C07': dict(cat='fault_enumeration', engine='bzgen (E4) -> lbzx batch (E1) vs bzref (E3) + file-operand leg', ref='DESIGN.md §5 C07',
   technique='exhaustive single-fault enumeration (every bit flip, every truncation length) over generated streams, real lbzip2 -d; outcome oracle status 1 + diagnostic + no signal/hang; file operand leg checks no output remains',
   text='Every candidate of the C05 enumeration that the reference rejects (or that is a documented exception) must end with exit status exactly 1, a diagnostic on stderr, no signal, no deadlock/horizon, under both configurations; a subset is run with FILE operands on the real binary to check that no output file remains.',
   note='Same trusted base as C05; hang = scheduler horizon / no enabled thread.'),
 'C08': dict(cat='exploration', engine='ASan+UBSan / MSan builds of lbzx and codecx', ref='DESIGN.md §5 C08',
   technique='sanitizers as per-execution oracle over the bounded-exhaustive enumerations of C01 (codec chain, divbwt)/C02/C04/C05-C07/C09/C14/C20 (no separate sampling); harness heap canaries, poisoned under ASan so that reads behind or in front of a block are reported too',
   text='The decompression candidate set (two configurations) and the compression corpus (compress + decompress) are re-run in an AddressSanitizer+UBSan whole-program build; the function-level enumerations (codec chain, collect sequences, retrieve/emit splits with exact-size allocations, scanner, code construction) run under ASan+UBSan and MemorySanitizer. Any report or crash is a violation.',
   note='Sanitizers see only what the enumerated inputs execute.'),
 'C09': dict(cat='model_checking', engine='codecx (E6) + lbzx batch + explorer (E1/E2) + hook H1', ref='DESIGN.md §5 C09',
   technique='exhaustive enumeration of buffer-boundary positions (every word split of retrieve() input, every composition of emit() output, every input-block size) and delay-bounded schedule enumeration, differential oracle',
   text='(a) retrieve() with every 1/2/3-piece word split, emit() with every composition of small outputs into buffer sizes: equal to the one-shot call. (b) each of ~25 valid/invalid streams under every input block size 4..len, a ladder of output buffer sizes, W 1..4, -d/-dc/-t/-dk/-cdf, read fragmentation; same status and bytes as the reference; partial outputs of failing inputs prefixes of each other; FILE output of the real binary. (c) all executions with <= d deviations (quick 2, thorough 3), W 2..3, three granularities.',
   note='Granularities set through hook H1. Trusted: vsched, bzref.'),
 'C10': dict(cat='model_checking', engine='bzgen planted headers + lbzx explorer (E1/E2) + hooks H1/H2', ref='DESIGN.md §5 C10',
   technique='stateless model checking: delay-bounded enumeration of interleavings of parser/scanner/retriever tasks on inputs with planted block-header patterns, oracle = sequential reference decoding',
   text='Streams with the 48-bit pattern planted in selector lists at every bit phase, across input-block boundaries, in trailing data (fake blocks, whole streams, broken streams), after broken streams, and complete decodable blocks planted verbatim inside valid compressed data (carrier blocks); W 1..3 x input block sizes x three canonical schedules, and every execution with <= d deviations (quick 2, thorough 3) for W 2..3. Status and bytes must equal the sequential reference decoding; scheduler counters conserved, heap released. H2 events count candidates created/adopted/discarded/aborted/rejected so vacuity is visible.',
   note='Trusted: vsched, bzref.'),
 'C14': dict(cat='model_checking', engine='codecx (E6)', ref='DESIGN.md §5 C14',
   technique='explicit-state product construction of mini_dfa with the definitional matcher (complete language equivalence), all 49x256 big_dfa entries, exhaustive placement enumeration for scan(); exhaustive priority-order x priority-change-point schedule enumeration of the whole program with a reachability oracle on scanner discoveries',
   text="All reachable (mini_dfa state, reference state) pairs agree on prefix length and acceptance; every big_dfa entry equals eight mini_dfa steps; scan() on buffers with the pattern at every bit offset over 101 backgrounds (near misses, repeated prefixes, overlaps), second copies, every start bit 0..64 and skip 0..168: reported position is exactly a real occurrence + 32 bits and no complete occurrence in range is missed; whole program (do_scan's loop around scan()): streams with a planted header directly before a genuine one, cut into input blocks of every size 8..68: over all 120 priority orders x one priority-change point the largest number of blocks the parser adopts from the scanner in one execution must equal the number of genuine headers lying wholly inside one input block.",
   note='Complete for the automata; scan() scope = 6..8-word buffers.'),
 'C15': dict(cat='fault_enumeration', engine='bzref field offsets + lbzx batch + explorer', ref='DESIGN.md §5 C15',
   technique='exhaustive single-bit fault enumeration over every stored CRC field of a corpus, whole program, plus delay-bounded schedule enumeration for selected fields',
   text='Every one of the 32 bits of every stored block CRC and stream CRC of 7 (9) multi-block / multi-stream / odd-alignment / randomised files is flipped; each mutant must give exit status 1 for W in {1,2,4} (and 3, -t) at stock and small input block sizes; every stream CRC and the first/middle/last field of the multi-stream files additionally under every strict-priority scheduler and all schedules with <= 1 (2) deviations at two input-block sizes (a stream CRC followed by another stream is checked while workers are already busy with the next stream).',
   note='Trusted: bzref for field offsets (a wrong offset would make the unflipped control fail).'),
 'C16': dict(cat='fault_enumeration', engine='lbzx explorer with file-system fixtures and file-operation interposition', ref='DESIGN.md §5 C16',
   technique='exhaustive crash-point / fault enumeration: every system-call position x errno, SIGKILL before/after each call, SIGINT/SIGTERM at every scheduling point, combined with scheduling deviations up to a bound; end-state oracle on the directory',
   text='For 8 (14) one-operand histories (compress/decompress, 0/1/3 blocks, -k, -u, -v, corrupt, truncated) every execution with <= d deviations (quick 2, thorough 3), a deviation being an errno failure of one open/read/write/close/fchown/fchmod/futimens/unlink/lstat call, a failing flush of stderr (EPIPE+SIGPIPE, EIO) at one message, SIGKILL at one call, SIGINT/SIGTERM at one scheduling point, or one scheduling choice; after each the directory must be S1 (input unchanged, nothing else) or S2 (complete output, input gone unless -k) consistent with the exit status / signal.',
   note='Real main.c/signals.c/process.c code with real file system calls in a scratch directory; kernel signal/I-O semantics are vsched\'s model.'),
 'C17': dict(cat='exploration', engine='lbzx batch with file-system fixtures vs table model', ref='DESIGN.md §5 C17',
   technique='exhaustive configuration-product enumeration against a reference rule table written from the statement/man page',
   text='Mode x legal subsets of -k/-c/-t/-f x operand type (regular, symlink, hard-linked, directory, missing) x 9 name suffixes (incl. names that are exactly a reserved suffix) x pre-existing output (absent/regular/read-only) x permission bits x timestamps, one fresh directory per case, whole program: action (skip+warn 4 / process / stream), output name, sentinel survival, mode bits, atime/mtime, input removal, output bytes, no descriptor or heap block left at exit, against a rule table; plus, for skipped operands, every execution with <= 1 (2) deviations (failing stderr at the warning, errno on a file operation, scheduling): nothing that existed may change.',
   note='Runs as root: permission-denied cases cannot be produced.'),
 'C18': dict(cat='model_checking', engine='lbzx batch with fixtures + explorer', ref='DESIGN.md §5 C18',
   technique='enumeration of all operand sequences up to depth 2 (3) with a differential oracle (combined invocation vs one invocation per operand), plus delay-bounded schedule enumeration of two-operand runs',
   text='All sequences of operand kinds (small, multi-block, empty, incompressible, skipped-by-suffix, hard link, missing, directory, output-already-exists, corrupt, non-bzip2 small and multi-buffer) to depth 2 (3) in modes compress, compress -u, compress -k, decompress, -dc, -t, -cdf, W in {1,3}: per-operand outputs and file effects equal those of separate invocations up to the first fatal one, status 1/4/0 rule, no descriptor or heap block left at exit; two-operand invocations under every schedule with <= d deviations.',
   note='Differential: no hand-written expected values.'),
 'C20': dict(cat='exploration', engine='codecx (E6) + bzref inspector + refhuff reference', ref='DESIGN.md §5 C20',
   technique='bounded-exhaustive enumeration of frequency vectors through the real assign_codes() and of every table written for the corpus, against an independent length-limited optimum',
   text='(a) assign_codes() on all frequency vectors of alphabet 3..5 (6) with entries 0..4 (6), strided 7..8 (10), Fibonacci-like families that hit the 20-bit limit, constant/geometric/two-level to 258: lengths 1..20, Kraft 1, cost == optimum for its own longest code. (b) every table used by a group in every block of the compression corpus: sum count*len == optimum for that max length.',
   note='Reference optimum (package-merge on sorted lists) is validated against exhaustive search inside each run.'),
 'C21': dict(cat='fault_enumeration', engine='lbzx explorer (E1/E2)', ref='DESIGN.md §5 C21',
   technique='exhaustive fault enumeration: an I/O error at every read()/write() position x errno x signal disposition, combined with delay-bounded scheduling deviations; deadlock/horizon detection',
   text='Filter runs of compression (both modes), decompression and -cdf copy, W 1..3: every execution with <= d deviations (quick 2, thorough 3) where a deviation is EIO on one read, EIO/ENOSPC/EPIPE/EFBIG on one write, or a scheduling choice; default and ignored SIGPIPE/SIGXFSZ; also with a signal mask inherited from a parent that blocked every signal lbzip2 uses. Oracle: ends (no deadlock, no horizon), status 1 or death by SIGPIPE/SIGXFSZ, never 0, diagnostic unless EPIPE/EFBIG.',
   note='Signal semantics are vsched\'s model (thread-directed SIGPIPE/SIGXFSZ, sigsuspend, masks).'),
 'C22': dict(cat='model_checking', engine='lbzx batch with fixtures vs rule table', ref='DESIGN.md §5 C22',
   technique='enumeration of all option-token sequences up to depth 2 (3) x invocation names x token placement, with differential (env vs argv, no-op insertion) and rule-table oracles',
   text='7 invocation names x all sequences of <= 2 (3) tokens from 19 mode/destination tokens x placements (argv; moved into LBZIP2; split over LBZIP2/BZIP2/BZIP) x {filter, FILE}: environment placement == command line; inserting ignored options/--small changes nothing; mode and destination follow the rule table from the statement.',
   note='Combinations the statement leaves undefined are subject to the differential oracles only.'),
}

NOT_YET = 'check not built yet in this round (work in progress, see DESIGN.md §10)'

def main():
    props = [json.loads(l) for l in open(os.path.join(VERIF, 'properties.jsonl'))]
    checks, na = [], []
    for p in props:
        pid = p['id']
        c = CHECKS.get(pid)
        if not c:
            na.append({'property_id': pid, 'reason': NOT_YET})
            continue
        checks.append({
            'property_id': pid,
            'quick_cmd': './vcheck %s quick' % pid,
            'thorough_cmd': './vcheck %s thorough' % pid,
            'evidence_file': 'evidence/%s.json' % pid,
            'replay_cmd_template': './vcheck replay {path}',
            'engine': c['engine'],
            'level_claimed': {'category': c['cat'], 'text': c['text'], 'design_ref': c['ref']},
            'level_note': c['note'],
            'technique': c['technique'],
        })
    m = {
        'version': 1,
        'setup_cmd': './vcheck setup',
        'hooks': {
            'guard': 'KJN_LBZIP2_VERIF',
            'enable': 'checks compile /repo/src/*.c themselves with -DKJN_LBZIP2_VERIF (framework/lib/build.py); nothing needs to be pre-built',
            'baseline_off_cmd': 'cmake -S /repo -B /repo/_build -G Ninja >/dev/null && cmake --build /repo/_build && ctest --test-dir /repo/_build -j8 --timeout 900',
            'source_commits': HOOK_COMMITS,
            'add_only': True,
        },
        'engines': [
            {'name': 'lbzx', 'path': 'framework/lbzx', 'serves_properties': ['C01', 'C03', 'C05', 'C06', 'C07', 'C08', 'C09', 'C10', 'C11', 'C12', 'C13', 'C15', 'C16', 'C17', 'C18', 'C19', 'C21', 'C22'],
             'kind_free_text': 'lbzip2 compiled unmodified with its pthread/read/write/signal/file calls routed to a serialising scheduler and environment model (vsched.c), run in-process by a stateless explorer (explore.c): delay-bounded deviations from canonical schedulers, all strict-priority schedulers, priority-change points; fault injection at every call position; invariants (slot counters, heap canaries, heap bound, heap released at exit, happens-before race detector) at every scheduling point'},
            {'name': 'bzref', 'path': 'framework/bzref', 'serves_properties': ['C02', 'C04', 'C05', 'C06', 'C07', 'C09', 'C10', 'C15', 'C20'],
             'kind_free_text': 'independent strict bit-by-bit bzip2 reference decoder and stream inspector, cross-checked with libbz2 on every candidate'},
            {'name': 'bzgen', 'path': 'framework/lib/bzgen.py', 'serves_properties': ['C05', 'C06', 'C07', 'C08', 'C09', 'C10', 'C11', 'C12', 'C13', 'C15'],
             'kind_free_text': 'bit-level bzip2 stream generator exposing every degree of freedom of the format, mutation helpers, planted headers and verbatim carrier blocks'},
            {'name': 'codecx', 'path': 'framework/codecx', 'serves_properties': ['C01', 'C04', 'C08', 'C09', 'C14', 'C20'],
             'kind_free_text': 'function-level enumeration harnesses on collect/encode/transmit/retrieve/decode/emit/scan/assign_codes with reference models (greedy packer, definitional matcher, length-limited optimum), fast/ASan+UBSan/MSan builds'},
        ],
        'checks': checks,
        'not_applicable': na,
        'notes': 'See DESIGN.md. Every check rebuilds from /repo/src as it is (object cache keyed by source hash under /verif/build).',
    }
    with open(os.path.join(VERIF, 'MANIFEST.json'), 'w') as f:
        json.dump(m, f, indent=1)
    print('MANIFEST.json: %d checks, %d not yet' % (len(checks), len(na)))

HOOK_COMMITS = ['2ab7e99', '080c1ce']

if __name__ == '__main__':
    main()
