#!/usr/bin/env python3
"""Writes /verif/MANIFEST.json from the table below (one place to edit)."""
import json, os, sys
HERE = os.path.dirname(os.path.abspath(__file__))
VERIF = os.path.dirname(HERE)

CHECKS = {
 'C11': dict(cat='model_checking', engine='lbzx (E1/E2)', ref='DESIGN.md §5 C11',
   technique='stateless model checking of the real scheduler code: exhaustive delay-bounded enumeration of thread interleavings under a controlled scheduler',
   text='Every execution of the real process.c/compress.c/expand.c task schedulers with at most d deviations (quick d=2, thorough d=3 plus one spurious condition wake-up) from three canonical schedulers, for compression (default and --sequential), decompression (stock and tiny I/O granularities) and -cdf copying, W<=2 (thorough 3), over a family of input shapes; deadlock = no enabled thread, livelock = horizon; slot counters checked at every scheduling point, queue overruns by the assertions, end state by primary_thread assertions, block order by exact output comparison.',
   note='Trusted: the 1100-line vsched scheduler/signal model; lbzip2 data-race freedom (C12) so that scheduling at synchronisation points is enough; bounds W<=3, deviations as reported in the evidence.'),
 'C03': dict(cat='model_checking', engine='lbzx (E1/E2) + real binary', ref='DESIGN.md §5 C03',
   technique='stateless model checking: exhaustive delay-bounded enumeration of thread interleavings and of read()/write() fragmentation answers on the real code, one-outcome oracle',
   text='For each (input, level, mode) one expected compressed byte string is fixed; every execution with at most d deviations (scheduling choices and short read()/write() answers share the budget; quick d=2, thorough d=3) for W in 1..3 (4), whole-run fragmentation policies, and the real binary on stdout / FILE operand / fragmented pipe must reproduce exactly that string.',
   note='Trusted: vsched; libbz2 judging that the expected string is a valid compression; bounds as reported.'),
 'C12': dict(cat='model_checking', engine='lbzx tsan variant', ref='DESIGN.md §5 C12',
   technique='ThreadSanitizer as per-execution oracle inside exhaustive delay-bounded schedule enumeration under the controlled scheduler',
   text='All four pipelines (compress, --sequential, decompress incl. tiny granularities/bad CRC/-t, -cdf copy), W up to 3 (4), every execution with at most d deviations (quick 1, thorough 2) from P0/P1/P2 of a ThreadSanitizer build whose detector is told exactly lbzip2\'s own mutex/create/join edges; any race report is a violation.',
   note='Trusted: ThreadSanitizer happens-before detection with finite history; SC interleavings; execution boundaries of the in-process executor are barriers.'),
 'C13': dict(cat='model_checking', engine='lbzx with malloc accounting', ref='DESIGN.md §5 C13',
   technique='invariant checking on every state of exhaustively enumerated bounded schedules: live heap bytes <= linear bound(W)',
   text='Live heap bytes are compared at every scheduling point of every execution with <= d deviations (quick 1, thorough 2) with the linear-in-W bound the slot discipline allows (computed from the running program\'s slot counts and buffer sizes); slot totals must stay within 2x the documented per-worker constants; canonical runs on inputs growing to 640 MB decoded (zero bombs) and 96 chunks must not raise the peak once the pipeline is saturated.',
   note='Live heap bytes stand in for RSS; thread stacks fixed; fragmentation not modelled.'),
 'C19': dict(cat='model_checking', engine='lbzx (E1/E2)', ref='DESIGN.md §5 C19',
   technique='stateless model checking of the 3-thread copy pipeline: exhaustive enumeration of interleavings and short-read answers up to a deviation bound',
   text='Every execution with <= d deviations (quick 2 for all inputs and 3 for the small/header inputs, thorough 4) of main/reader/writer scheduling and short reads, for all lengths 0..12 and around 1x/2x/3x the 64 KiB buffer, with every near-miss of the BZh[1-9] magic as prefix; output must equal the input, status 0, stderr empty, termination; inputs that do start with a stream header must end exactly as under plain -d.',
   note='Pipe fragmentation is modelled as read() returning fewer bytes than asked; vsched trusted.'),
}

NOT_YET = 'check not built yet in this round (work in progress, see DESIGN.md §10)'

def main():
    props = [json.loads(l) for l in open(os.path.join(VERIF, 'properties.jsonl'))]
    checks, na = [], []
    for p in props:
        pid = p['id']
        c = CHECKS.get(pid)
        if not c:
            na.append({'property_id': pid, 'reason': NOT_YET})
            continue
        checks.append({
            'property_id': pid,
            'quick_cmd': './vcheck %s quick' % pid,
            'thorough_cmd': './vcheck %s thorough' % pid,
            'evidence_file': 'evidence/%s.json' % pid,
            'replay_cmd_template': './vcheck replay {path}',
            'engine': c['engine'],
            'level_claimed': {'category': c['cat'], 'text': c['text'], 'design_ref': c['ref']},
            'level_note': c['note'],
            'technique': c['technique'],
        })
    m = {
        'version': 1,
        'setup_cmd': './vcheck setup',
        'hooks': {
            'guard': 'KJN_LBZIP2_VERIF',
            'enable': 'checks compile /repo/src/*.c themselves with -DKJN_LBZIP2_VERIF (framework/lib/build.py); nothing needs to be pre-built',
            'baseline_off_cmd': 'cmake -S /repo -B /repo/_build -G Ninja >/dev/null && cmake --build /repo/_build && ctest --test-dir /repo/_build -j8 --timeout 900',
            'source_commits': HOOK_COMMITS,
            'add_only': True,
        },
        'engines': [
            {'name': 'lbzx', 'path': 'framework/lbzx', 'serves_properties': ['C01', 'C03', 'C09', 'C10', 'C11', 'C12', 'C13', 'C19', 'C21'],
             'kind_free_text': 'lbzip2 compiled unmodified with its pthread/read/write/signal calls routed to a serialising scheduler (vsched.c) and a stateless deviation-bounded explorer (explore.c)'},
        ],
        'checks': checks,
        'not_applicable': na,
        'notes': 'See DESIGN.md. Every check rebuilds from /repo/src as it is (object cache keyed by source hash under /verif/build).',
    }
    with open(os.path.join(VERIF, 'MANIFEST.json'), 'w') as f:
        json.dump(m, f, indent=1)
    print('MANIFEST.json: %d checks, %d not yet' % (len(checks), len(na)))

HOOK_COMMITS = ['2ab7e99', '080c1ce']

if __name__ == '__main__':
    main()
