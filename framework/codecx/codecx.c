/* codecx.c -- exhaustive small-scope harnesses on single codec functions
 * (engine E6).  Built by framework/lib/build.py:harness() in several sanitizer
 * variants; #includes src/encode.c and src/scantab.h for the two legs that
 * need file-static functions (collect() state, assign_codes(), the scanner
 * tables); everything else uses the public entry points of encode.h/decode.h.
 *
 *   codecx c14 <tier>          scanner automata and scan() placements
 *   codecx c04 <tier>          collect() operation sequences vs greedy packer
 *   codecx c20 <tier>          assign_codes() vs optimal length-limited cost
 *   codecx c01 <tier>          codec chain round trip over small scopes
 *   codecx bwt <tier>          divbwt() vs sorted cyclic rotations
 *   codecx c09 <tier> FILE     retrieve()/emit() suspended at every position
 *
 * Output: lines "VIOL <text>" (at most 20 per leg) and one final line
 * "STAT key=value ...".
 */
/* common.h has no include guard: it comes in through encode.c */
#include <arpa/inet.h>
#include <stdio.h>
#include <string.h>

#include "encode.c"             /* struct encoder_state, assign_codes(), ... */
#include "decode.h"
#include "scantab.h"

/* main.c is not linked.  decoder_init() asks for its 3.6 MB block array
   through xmalloc() for every block; the sanitizer allocators map, poison and
   unmap such a block in ~0.5 ms, which made the sanitizer builds of the
   enumerations below 50x slower than the code under test.  The one big block
   is therefore kept and handed out again; under MemorySanitizer the part the
   previous user may have written is poisoned again first, so a read of an
   entry that the current block did not write is still reported. */
#if defined(__has_feature)
#if __has_feature(memory_sanitizer)
#include <sanitizer/msan_interface.h>
#define CX_POISON(p, n) __msan_poison(p, n)
#endif
#endif
#ifndef CX_POISON
#define CX_POISON(p, n) ((void)0)
#endif
#define NBIG 3
static struct { void *p; size_t size, dirty; int busy; } big[NBIG];

void *
xmalloc(size_t n)
{
  void *p;
  if (n >= (1u << 20)) {
    int i;
    for (i = 0; i < NBIG; i++)
      if (big[i].p && !big[i].busy && big[i].size == n) {
        CX_POISON(big[i].p, big[i].dirty < n ? big[i].dirty : n);
        big[i].busy = 1;
        return big[i].p;
      }
    for (i = 0; i < NBIG; i++)
      if (!big[i].p) {
        big[i].p = malloc(n);
        if (!big[i].p)
          abort();
        big[i].size = n;
        big[i].busy = 1;
        return big[i].p;
      }
  }
  p = malloc(n);
  if (!p)
    abort();
  return p;
}

/* give back ds->tt: `words' = number of entries that may have been written */
static void
cx_free_tt(uint32_t *tt, size_t words)
{
  int i;
  for (i = 0; i < NBIG; i++)
    if (tt && (void *)tt == big[i].p) {
      big[i].dirty = words * 4 + 4096;
      big[i].busy = 0;
      return;
    }
  free(tt);
}

static void
cx_decoder_free(struct decoder_state *ds)
{
  cx_free_tt(ds->tt, 900000);     /* state unknown (error path): everything may be dirty */
  ds->tt = NULL;
  free(ds->internal_state);
}

static unsigned long nviol;
static int tier_thorough;
static int tier_san;           /* reduced scopes for the sanitizer builds' quick pass (C08) */

#define VIOL(...) do { if (nviol++ < 20) { printf("VIOL "); printf(__VA_ARGS__); printf("\n"); } } while (0)

/* ------------------------------------------------------------------------ */
/* reference models                                                          */

static uint32_t rcrc_tab[256];

static void
rcrc_init(void)
{
  uint32_t i, j, c;
  for (i = 0; i < 256; i++) {
    c = i << 24;
    for (j = 0; j < 8; j++)
      c = (c & 0x80000000u) ? (c << 1) ^ 0x04c11db7u : (c << 1);
    rcrc_tab[i] = c;
  }
}

static uint32_t
rcrc(const uint8_t *p, size_t n)
{
  uint32_t c = 0xffffffffu;
  while (n--)
    c = (c << 8) ^ rcrc_tab[(c >> 24) ^ *p++];
  return ~c;
}

/* greedy packer of C04 on d[0..n): fills out[] with the block's run-length
   bytes, returns bytes consumed; *full says whether the block refused more */
static size_t
ref_pack(const uint8_t *d, size_t n, size_t cap, uint8_t *out, size_t *outn, int *full)
{
  size_t p = 0, q = 0;
  int pending = 0;              /* a run of 4..258 that more equal bytes could still join for free */
  *full = 0;
  while (p < n && q < cap) {
    uint8_t ch = d[p];
    int r = 1;
    out[q++] = ch;
    p++;
    while (r < 3 && p < n && d[p] == ch && q < cap) {
      r++;
      out[q++] = ch;
      p++;
    }
    if (r == 3 && p < n && d[p] == ch) {
      if (q + 2 > cap) {
        *full = 1;
        break;
      }
      p++;
      out[q++] = ch;
      r = 4;
      while (r < 259 && p < n && d[p] == ch) {
        p++;
        r++;
      }
      out[q++] = r - 4;
      pending = (r < 259 && p == n);
    }
  }
  if (q >= cap && !pending)
    *full = 1;
  *outn = q;
  return p;
}

/* ------------------------------------------------------------------------ */
/* C14                                                                       */

static const char *PAT = "001100010100000101011001001001100101001101011001";   /* 0x314159265359 */

static unsigned
ref_next(unsigned len, unsigned bit)
{
  /* longest prefix of PAT that is a suffix of PAT[0..len) + bit */
  char s[64];
  unsigned n = len + 1, k;
  memcpy(s, PAT, len);
  s[len] = '0' + bit;
  for (k = n > 48 ? 48 : n; k > 0; k--)
    if (memcmp(PAT, s + n - k, k) == 0)
      return k;
  return 0;
}

static void
leg_c14(void)
{
  unsigned long product_states = 0, product_trans = 0, big_entries = 0, scan_calls = 0, scan_found = 0;
  /* (a) product of the bit automaton with the definition */
  {
    static unsigned char seen[49][49];
    unsigned qd[49 * 49], qr[49 * 49], head = 0, tail = 0;
    qd[tail] = 0; qr[tail] = 0; tail++;
    seen[0][0] = 1;
    while (head < tail) {
      unsigned d = qd[head], r = qr[head], b;
      head++;
      product_states++;
      if ((d == ACCEPT) != (r == 48))
        VIOL("mini_dfa: state %u accepts=%d but the input so far %s the pattern (reference prefix %u)", d, d == ACCEPT,
             r == 48 ? "ends with" : "does not end with", r);
      if (d == ACCEPT || r == 48)
        continue;
      for (b = 0; b < 2; b++) {
        unsigned nd = mini_dfa[d][b], nr = ref_next(r, b);
        product_trans++;
        if (nd > ACCEPT) {
          VIOL("mini_dfa[%u][%u] = %u out of range", d, b, nd);
          continue;
        }
        if (!seen[nd][nr]) {
          seen[nd][nr] = 1;
          qd[tail] = nd; qr[tail] = nr; tail++;
        }
      }
    }
    /* every reference state must be reached (otherwise the product is vacuous) */
    if (product_states < 49)
      VIOL("product automaton has only %lu states", product_states);
  }
  /* big_dfa = eight steps of mini_dfa, accepting state absorbing */
  {
    unsigned s, c, k;
    for (s = 0; s <= 48; s++)
      for (c = 0; c < 256; c++) {
        unsigned st = s;
        for (k = 0; k < 8 && st != ACCEPT; k++)
          st = mini_dfa[st][(c >> (7 - k)) & 1];
        big_entries++;
        if (big_dfa[s][c] != st)
          VIOL("big_dfa[%u][0x%02x] = %u, eight bit steps give %u", s, c, big_dfa[s][c], st);
      }
  }
  /* (b) scan(): planted patterns, all start offsets, all skip distances */
  {
    enum { NW = 7, NB = NW * 32 };
    unsigned bg, o, o2, start, skip;
    static char bits[NB + 1];
    for (bg = 0; bg < 6 + 48 + 47; bg++) {
      for (o = 0; o <= NB - 48; o += (tier_thorough || bg < 2) ? 1 : 3) {
        for (o2 = 0; o2 < 3; o2++) {
          unsigned i, second = 0;
          uint32_t words[NW];
          /* background */
          for (i = 0; i < NB; i++) {
            if (bg == 0) bits[i] = '0';
            else if (bg == 1) bits[i] = '1';
            else if (bg == 2) bits[i] = '0' + (i & 1);
            else if (bg == 3) bits[i] = PAT[i % 48];               /* the pattern tiled from bit 0 */
            else if (bg == 4) bits[i] = PAT[(i + 17) % 48];
            else if (bg == 5) bits[i] = '0' + ((i * 7 + i / 5) & 1);
            else if (bg < 6 + 48) {                                  /* one-bit-off near miss, tiled */
              unsigned k = i % 48;
              bits[i] = (k == bg - 6) ? ('0' + '1' - PAT[k]) : PAT[k];
            }
            else {                                                   /* proper prefix repeated */
              unsigned plen = bg - (6 + 48) + 1;
              bits[i] = PAT[i % plen];
            }
          }
          memcpy(bits + o, PAT, 48);
          if (o2 == 1) { second = o + 48 + 5; }
          if (o2 == 2) { second = o + 80 + 11; }
          if (o2 && second + 48 <= NB)
            memcpy(bits + second, PAT, 48);
          for (i = 0; i < NW; i++) {
            uint32_t w = 0;
            unsigned k;
            for (k = 0; k < 32; k++)
              w = (w << 1) | (bits[i * 32 + k] - '0');
            words[i] = htonl(w);
          }
          for (start = 0; start <= 64; start += (tier_thorough ? 1 : (start < 34 ? 1 : 5))) {
            for (skip = 0; skip <= 168; skip += (tier_thorough ? 1 : (skip < 40 ? 1 : 9))) {
              struct bitstream bs;
              unsigned nw0 = (start + 31) / 32, live = nw0 * 32 - start, eff, s, first = NB + 1, end;
              int rv, exp_found;
              bs.block = NULL;
              bs.eof = 0;
              bs.data = words + nw0;
              bs.limit = words + NW;
              bs.live = live;
              bs.buff = 0;
              if (live) {
                uint32_t w = ntohl(words[nw0 - 1]);
                bs.buff = (uint64_t)(w & ((live == 32) ? 0xffffffffu : ((1u << live) - 1))) << (64 - live);
              }
              /* where the scanner is entitled to begin looking */
              if (skip <= live)
                eff = start;
              else {
                eff = start + live + 32 * ((skip - live + 31) / 32);
                if (eff > NB) eff = NB;
              }
              for (s = eff; s + 80 <= NB; s++)
                if (memcmp(bits + s, PAT, 48) == 0) { first = s; break; }
              exp_found = first <= NB;
              rv = scan(&bs, skip);
              scan_calls++;
              end = 32 * (unsigned)(bs.data - words) - bs.live;
              if (rv == OK) {
                unsigned at = end - 80;
                scan_found++;
                if (end < 80 || end > NB || memcmp(bits + at, PAT, 48) != 0)
                  VIOL("scan: reports a candidate ending at bit %u where the pattern is not (bg %u o %u start %u skip %u)", end, bg, o, start, skip);
                else if (at < start)
                  VIOL("scan: candidate at bit %u lies before the start position %u", at, start);
                else if (exp_found && first < at)
                  VIOL("scan: misses the occurrence at bit %u (reports %u; bg %u start %u skip %u live %u)", first, at, bg, start, skip, live);
              }
              else if (rv == MORE) {
                if (exp_found)
                  VIOL("scan: returns MORE although the pattern and 32 more bits sit at bit %u (bg %u o %u start %u skip %u live %u)", first, bg, o, start, skip, live);
              }
              else
                VIOL("scan: return value %d", rv);
            }
          }
        }
      }
    }
  }
  printf("STAT leg=c14 product_states=%lu product_transitions=%lu big_dfa_entries=%lu scan_calls=%lu scan_found=%lu violations=%lu\n",
         product_states, product_trans, big_entries, scan_calls, scan_found, nviol);
}

/* ------------------------------------------------------------------------ */
/* C04: collect() operation sequences                                        */

static unsigned char c04_seen[260][4][45];
static unsigned long c04_states;

static void
c04_state(const struct encoder_state *s, int same_next)
{
  int rs = s->rle_state + 1;            /* -1..258 -> 0..259 */
  long room = (long)s->max_block_size - (long)s->nblock;
  if (room > 44) room = 44;
  if (rs >= 0 && rs < 260 && !c04_seen[rs][same_next][room]) {
    c04_seen[rs][same_next][room] = 1;
    c04_states++;
  }
}

/* feed d[0..n) cut at cuts[] into blocks of capacity m; compare with ref */
static unsigned long c04_calls, c04_seqs, c04_blocks;

static void
c04_run(const uint8_t *d, size_t n, size_t m, const size_t *cuts, int ncuts)
{
  static struct encoder_state *es;
  static uint8_t refout[2048];
  size_t pos = 0;                       /* input position */
  int ci = 0;
  if (!es)
    es = xmalloc(encoder_alloc_size(1100));
  c04_seqs++;
  while (pos < n) {
    size_t blk_start = pos, fed = 0;
    int full = 0;
    encoder_init(es, m, CLUSTER_FACTOR);
    c04_blocks++;
    while (!full && pos < n) {
      /* next piece: up to the next cut */
      size_t endp = n, sz, left, used;
      uint8_t *block = (void *)(es->SA + es->max_block_size + GROUP_SIZE);
      size_t rq, rused;
      int rfull;
      while (ci < ncuts && cuts[ci] <= pos) ci++;
      if (ci < ncuts) endp = cuts[ci];
      sz = endp - pos;
      left = sz;
      {
        uint8_t *tight = malloc(sz ? sz : 1);
        memcpy(tight, d + pos, sz);
        full = collect(es, tight, &left);
        free(tight);
      }
      c04_calls++;
      used = sz - left;
      pos += used;
      fed = pos - blk_start;
      /* reference on everything this block has been offered so far */
      rused = ref_pack(d + blk_start, (pos - blk_start) + left, m, refout, &rq, &rfull);
      c04_state(es, pos < n && es->rle_state > 0 && d[pos] == es->rle_character);
      if (used > sz) { VIOL("collect: consumed %zu of %zu", used, sz); return; }
      if (rused != fed || rfull != full) {
        VIOL("collect: capacity %zu input %.*s piece ends at %zu: consumed %zu (full=%d), greedy rule consumes %zu (full=%d)",
             m, (int)(n < 60 ? n : 60), (const char *)d, pos + left, fed, full, rused, rfull);
        return;
      }
      {
        /* block contents: a pending run of >= 4 has its count byte written at encode() time */
        size_t nb = es->nblock;
        uint8_t tmp[2048];
        memcpy(tmp, block, nb);
        if (es->rle_state >= 4)
          tmp[nb++] = es->rle_state - 4;
        if (nb != rq || memcmp(tmp, refout, nb) != 0) {
          VIOL("collect: capacity %zu input %.*s after %zu bytes: block holds %zu run-length bytes, reference %zu", m,
               (int)(n < 60 ? n : 60), (const char *)d, fed, nb, rq);
          return;
        }
        if ((es->block_crc ^ 0xffffffffu) != rcrc(d + blk_start, fed)) {
          VIOL("collect: CRC of block differs from CRC of the %zu bytes it consumed", fed);
          return;
        }
      }
      if (!full && left != 0) { VIOL("collect: returned not-full with %zu bytes unconsumed", left); return; }
      if (full && used == 0 && fed == 0) { VIOL("collect: empty block reported full"); return; }
    }
  }
}

static void
c04_cuts(const uint8_t *d, size_t n, size_t m, int maxcuts)
{
  size_t cuts[3];
  size_t a, b;
  c04_run(d, n, m, cuts, 0);
  if (maxcuts >= 1)
    for (a = 1; a < n; a++) {
      cuts[0] = a;
      c04_run(d, n, m, cuts, 1);
      if (maxcuts >= 2)
        for (b = a + 1; b < n; b++) {
          cuts[1] = b;
          c04_run(d, n, m, cuts, 2);
        }
    }
}

static void
leg_c04(void)
{
  static const size_t caps_big[] = { 255, 256, 257, 258, 259, 260, 261, 262, 263, 264, 265, 266, 267, 268, 269, 270,
                                     515, 516, 517, 518, 519, 520, 521, 522, 523, 524, 525 };
  static const int runlens[] = { 1, 2, 3, 4, 5, 6, 254, 255, 256, 257, 258, 259, 260, 261, 262, 263, 264, 518, 519, 777 };
  unsigned maxlen = tier_thorough ? 13 : tier_san ? 8 : 10, len;
  size_t m;
  uint8_t buf[4096];
  /* all strings over {a,b} up to maxlen, every capacity 1..40, every cut into <= 3 pieces */
  for (len = 1; len <= maxlen; len++) {
    unsigned long v, nv = 1ul << len;
    for (v = 0; v < nv; v++) {
      unsigned i;
      for (i = 0; i < len; i++)
        buf[i] = 'a' + ((v >> i) & 1);
      for (m = 1; m <= 40; m++) {
        if (m > len + 2 && m < 38)
          continue;             /* capacities far above the input size behave alike */
        c04_cuts(buf, len, m, len <= (tier_thorough ? 12u : 9u) ? 2 : 1);
      }
    }
  }
  /* strings over {a,b,c} up to 8 (thorough) / 6 */
  for (len = 1; len <= (tier_thorough ? 8u : tier_san ? 5u : 6u); len++) {
    unsigned long v, nv = 1;
    unsigned i;
    for (i = 0; i < len; i++) nv *= 3;
    for (v = 0; v < nv; v++) {
      unsigned long t = v;
      for (i = 0; i < len; i++) { buf[i] = 'a' + t % 3; t /= 3; }
      for (m = 1; m <= len + 2; m++)
        c04_cuts(buf, len, m, 2);
    }
  }
  /* up to three runs with lengths around the 4 / 259 limits, capacities where
     a maximal run meets the end of the block; every 1-cut, and 2-cuts around run ends */
  {
    unsigned i, j, k, nr = sizeof runlens / sizeof *runlens;
    for (i = 0; i < nr; i++)
      for (j = 0; j <= nr; j++)
        for (k = 0; k <= nr; k++) {
          size_t n = 0, a, ci;
          if (j == nr && k != nr) continue;
          if (!tier_thorough && k != nr && (i + j + k) % 3) continue;
          if (tier_san && (k != nr ? (i + 2 * j + 3 * k) % 9 : (i + j) % 2)) continue;
          memset(buf + n, 'x', runlens[i]); n += runlens[i];
          if (j < nr) { memset(buf + n, 'y', runlens[j]); n += runlens[j]; }
          if (k < nr) { memset(buf + n, 'x', runlens[k]); n += runlens[k]; }
          if (n > 2000) continue;
          for (ci = 0; ci < sizeof caps_big / sizeof *caps_big + 8; ci++) {
            size_t cuts[2];
            m = ci < 8 ? 3 + ci : caps_big[ci - 8];
            if (!tier_thorough && ci >= 8 && (ci + i) % 2) continue;
            c04_run(buf, n, m, cuts, 0);
            for (a = 1; a < n; a++) {
              /* cuts near run boundaries and near multiples of the run limits */
              size_t r = a % 259;
              if (!(a <= 6 || n - a <= 6 || r <= 5 || r >= 254 || (a > (size_t)runlens[i] ? a - runlens[i] : runlens[i] - a) <= 5))
                continue;
              cuts[0] = a;
              c04_run(buf, n, m, cuts, 1);
              if (a + 3 < n) {
                cuts[1] = a + 3;
                c04_run(buf, n, m, cuts, 2);
              }
            }
          }
        }
  }
  printf("STAT leg=c04 sequences=%lu collect_calls=%lu blocks=%lu distinct_states=%lu violations=%lu\n",
         c04_seqs, c04_calls, c04_blocks, c04_states, nviol);
}

/* ------------------------------------------------------------------------ */
/* C20: assign_codes()                                                       */

static int
cmp_u64(const void *a, const void *b)
{
  uint64_t x = *(const uint64_t *)a, y = *(const uint64_t *)b;
  return x < y ? -1 : x > y;
}

/* optimal cost of a complete prefix code with lengths <= L: package-merge on
   plain sorted lists (coin collector formulation) */
static uint64_t
ref_optimal(const uint32_t *f, unsigned n, unsigned L)
{
  static uint64_t leaves[260], cur[1200], pk[600];
  unsigned i, l, ncur = 0, npk = 0;
  uint64_t sum = 0;
  for (i = 0; i < n; i++) leaves[i] = f[i];
  qsort(leaves, n, sizeof *leaves, cmp_u64);
  for (l = 0; l < L; l++) {
    ncur = 0;
    for (i = 0; i < n; i++) cur[ncur++] = leaves[i];
    for (i = 0; i < npk; i++) cur[ncur++] = pk[i];
    qsort(cur, ncur, sizeof *cur, cmp_u64);
    npk = 0;
    for (i = 0; i + 1 < ncur; i += 2) pk[npk++] = cur[i] + cur[i + 1];
  }
  for (i = 0; i < 2 * n - 2; i++) sum += cur[i];
  return sum;
}

static unsigned long c20_vecs, c20_limited;
static unsigned c20_maxlen;

static void
c20_one(const uint32_t *freq, unsigned as)
{
  uint32_t code[MAX_ALPHA_SIZE + 1], fr[MAX_ALPHA_SIZE + 1];
  uint8_t length[MAX_ALPHA_SIZE + 1];
  uint64_t kraft = 0, cost = 0, opt;
  unsigned i, maxl = 0;
  memcpy(fr, freq, as * sizeof *fr);
  memset(length, 0, sizeof length);
  assign_codes(code, length, fr, as);
  c20_vecs++;
  for (i = 0; i < as; i++) {
    if (length[i] < 1 || length[i] > 20) {
      VIOL("assign_codes: length %u for symbol %u (alphabet %u)", length[i], i, as);
      return;
    }
    kraft += 1ull << (20 - length[i]);
    cost += (uint64_t)freq[i] * length[i];
    if (length[i] > maxl) maxl = length[i];
  }
  if (maxl > c20_maxlen) c20_maxlen = maxl;
  if (kraft != 1ull << 20) {
    VIOL("assign_codes: code is not complete (Kraft sum %llu/2^20, alphabet %u)", (unsigned long long)kraft, as);
    return;
  }
  opt = ref_optimal(freq, as, maxl);
  if (maxl == 20 && opt > ref_optimal(freq, as, as)) c20_limited++;
  if (cost != opt) {
    char b[400];
    int k = 0;
    for (i = 0; i < as && k < 360; i++) k += snprintf(b + k, sizeof b - k, "%u:%u ", freq[i], length[i]);
    VIOL("assign_codes: cost %llu, optimum for codes of at most %u bits is %llu; freq:len = %s", (unsigned long long)cost, maxl,
         (unsigned long long)opt, b);
  }
}

static void
leg_c20(void)
{
  uint32_t f[MAX_ALPHA_SIZE + 1];
  unsigned as, i;
  /* all vectors, alphabet 3..6, entries 0..6 (thorough) / 0..4 */
  unsigned top = tier_thorough ? 6 : 4;
  for (as = 3; as <= (tier_thorough ? 6u : 5u); as++) {
    unsigned long v, nv = 1;
    for (i = 0; i < as; i++) nv *= top + 1;
    for (v = 0; v < nv; v++) {
      unsigned long t = v;
      for (i = 0; i < as; i++) { f[i] = t % (top + 1); t /= top + 1; }
      c20_one(f, as);
    }
  }
  /* alphabet 7..10 with entries from a small set */
  {
    static const uint32_t vals[] = { 0, 1, 2, 3, 5, 8 };
    for (as = 7; as <= (tier_thorough ? 10u : 8u); as++) {
      unsigned long v, nv = 1;
      for (i = 0; i < as; i++) nv *= 6;
      for (v = 0; v < nv; v += (tier_thorough ? 7 : 13)) {
        unsigned long t = v;
        for (i = 0; i < as; i++) { f[i] = vals[t % 6]; t /= 6; }
        c20_one(f, as);
      }
    }
  }
  /* Fibonacci-like vectors: the only ones whose unrestricted depth exceeds 20 */
  for (as = 18; as <= 34; as++) {
    unsigned long mask, nm = tier_thorough ? 4096 : 256;
    for (mask = 0; mask < nm; mask++) {
      uint64_t a = 1, b = 1;
      int ok = 1;
      for (i = 0; i < as; i++) {
        int eps = (int)((mask >> (2 * (i % 6))) & 3) - 1;   /* -1, 0, 1, 2 */
        uint64_t c = a + b + (eps == 2 ? 0 : eps);
        f[as - 1 - i] = (uint32_t)a;
        a = b;
        b = c ? c : 1;
        if (a > 900000) { ok = 0; break; }
      }
      if (ok) {
        uint64_t tot = 0;
        for (i = 0; i < as; i++) tot += f[i];
        if (tot <= 900050)
          c20_one(f, as);
      }
    }
  }
  /* constant, geometric and two-level vectors up to the full alphabet */
  for (as = 3; as <= 258; as += (tier_thorough ? 1 : 5)) {
    for (i = 0; i < as; i++) f[i] = 1;
    c20_one(f, as);
    for (i = 0; i < as; i++) f[i] = i < 20 ? 1u << i : 3;
    c20_one(f, as);
    for (i = 0; i < as; i++) f[i] = i < 18 ? 1u << (18 - i) : 0;
    c20_one(f, as);
    for (i = 0; i < as; i++) f[i] = (i % 7 == 0) ? 1000 : 1;
    c20_one(f, as);
    for (i = 0; i < as; i++) f[i] = i * i % 97;
    c20_one(f, as);
  }
  printf("STAT leg=c20 vectors=%lu longest_code=%u limit_binding=%lu violations=%lu\n", c20_vecs, c20_maxlen, c20_limited, nviol);
}

/* ------------------------------------------------------------------------ */
/* C01(a): codec chain over small scopes                                     */

static unsigned long c01_inputs, c01_blocks, c01_emit_calls;

static int
decode_block(const uint8_t *blk, size_t blen, uint8_t *out, size_t *outn, uint32_t *crc)
{
  /* blk: transmitted block incl. 48-bit magic and 32-bit CRC, padded to words */
  struct decoder_state ds;
  struct bitstream bs;
  uint32_t *w = malloc(blen + 32);
  size_t nw = (blen - 10 + 3) / 4 + 4, o = 0;   /* + 4 words: in a stream at least 80 more bits follow a block */
  int rv;
  memset(w, 0, blen + 32);
  memcpy(w, blk + 10, blen - 10);
  decoder_init(&ds);
  bs.live = 0; bs.buff = 0; bs.block = NULL; bs.eof = 0;
  bs.data = w; bs.limit = w + nw;
  rv = retrieve(&ds, &bs);
  if (rv == MORE) {
    bs.data = bs.limit = NULL;
    bs.eof = 1;
    rv = retrieve(&ds, &bs);
  }
  if (rv != OK) {
    cx_decoder_free(&ds);
    free(w);
    return rv;
  }
  decode(&ds);
  for (;;) {
    size_t room = 7;
    uint8_t tmp[8];
    rv = emit(&ds, tmp, &room);
    c01_emit_calls++;
    memcpy(out + o, tmp, 7 - room);
    o += 7 - room;
    if (rv != MORE)
      break;
  }
  *outn = o;
  *crc = ds.crc;
  cx_free_tt(ds.tt, ds.block_size + 16);
  free(w);
  return rv;
}

static void
c01_run(const uint8_t *d, size_t n, size_t m, size_t cut)
{
  static struct encoder_state *es;
  static uint8_t out[8192];
  size_t pos = 0;
  int firstcall = 1;
  if (!es) es = xmalloc(encoder_alloc_size(2100));
  c01_inputs++;
  while (pos < n) {
    size_t start = pos, sz, left, osz, blen;
    uint32_t crc, dcrc;
    uint8_t *blk;
    int full = 0, rv;
    encoder_init(es, m, CLUSTER_FACTOR);
    while (!full && pos < n) {
      sz = n - pos;
      if (firstcall && cut && cut > pos && cut < n) sz = cut - pos;
      firstcall = 0;
      left = sz;
      full = collect(es, d + pos, &left);
      pos += sz - left;
      if (!full && left) { VIOL("chain: collect left %zu bytes without being full", left); return; }
    }
    if (pos == start) { VIOL("chain: no progress at %zu", pos); return; }
    blen = encode(es, &crc);
    blk = malloc((blen + 3) / 4 * 4 + 8);
    transmit(es, blk);
    c01_blocks++;
    rv = decode_block(blk, (blen + 3) / 4 * 4, out, &osz, &dcrc);
    free(blk);
    if (rv != OK) {
      VIOL("chain: capacity %zu input %.*s: block [%zu,%zu) does not decode (error %d)", m, (int)(n < 40 ? n : 40), (const char *)d, start, pos, rv);
      return;
    }
    if (osz != pos - start || memcmp(out, d + start, osz) != 0) {
      VIOL("chain: capacity %zu input %.*s: block [%zu,%zu) decodes to %zu different bytes", m, (int)(n < 40 ? n : 40), (const char *)d, start, pos, osz);
      return;
    }
    if (dcrc != (crc ^ 0xffffffffu) || dcrc != rcrc(d + start, osz)) {
      VIOL("chain: CRC mismatch encoder %08x decoder %08x reference %08x", crc ^ 0xffffffffu, dcrc, rcrc(d + start, osz));
      return;
    }
  }
}

static void
leg_c01(void)
{
  uint8_t buf[2400];
  unsigned len, maxlen = tier_thorough ? 13 : tier_san ? 7 : 10;
  size_t m;
  static const int runlens[] = { 1, 2, 3, 4, 5, 6, 254, 255, 256, 257, 258, 259, 260, 261, 262, 263, 264, 518, 519, 777 };
  for (len = 1; len <= maxlen; len++) {
    unsigned long v, nv = 1ul << len;
    for (v = 0; v < nv; v++) {
      unsigned i;
      for (i = 0; i < len; i++) buf[i] = 'a' + ((v >> i) & 1);
      for (m = 1; m <= 24; m++) {
        size_t cut;
        if (m > len + 2 && m != 24) continue;
        c01_run(buf, len, m, 0);
        if (len <= 8)
          for (cut = 1; cut < len; cut++)
            c01_run(buf, len, m, cut);
      }
    }
  }
  for (len = 1; len <= (tier_thorough ? 8u : tier_san ? 5u : 6u); len++) {
    unsigned long v, nv = 1;
    unsigned i;
    for (i = 0; i < len; i++) nv *= 3;
    for (v = 0; v < nv; v++) {
      unsigned long t = v;
      for (i = 0; i < len; i++) { buf[i] = 'a' + t % 3; t /= 3; }
      for (m = 1; m <= 10; m++)
        c01_run(buf, len, m, len / 2);
    }
  }
  {
    unsigned i, j, k, nr = sizeof runlens / sizeof *runlens;
    for (i = 0; i < nr; i++)
      for (j = 0; j <= nr; j++)
        for (k = 0; k <= nr; k++) {
          size_t n = 0;
          if (j == nr && k != nr) continue;
          if (!tier_thorough && k != nr && (i + 2 * j + k) % 4) continue;
          if (tier_san && k != nr && (i + j + 3 * k) % 3) continue;
          memset(buf + n, 'x', runlens[i]); n += runlens[i];
          if (j < nr) { memset(buf + n, 'y', runlens[j]); n += runlens[j]; }
          if (k < nr) { memset(buf + n, 'x', runlens[k]); n += runlens[k]; }
          if (n > 2300) continue;
          for (m = 5; m <= 24; m += 6) c01_run(buf, n, m, n / 3);
          c01_run(buf, n, 260, runlens[i]);
          c01_run(buf, n, 2000, 0);
        }
  }
  /* every alphabet size */
  {
    unsigned k;
    for (k = 1; k <= 256; k++) {
      unsigned i;
      for (i = 0; i < k; i++) buf[i] = i;
      for (i = 0; i < k; i++) buf[k + i] = k - 1 - i;
      c01_run(buf, 2 * k, 2 * k + 5, 0);
    }
  }
  printf("STAT leg=c01 inputs=%lu blocks=%lu emit_calls=%lu violations=%lu\n", c01_inputs, c01_blocks, c01_emit_calls, nviol);
}

/* ------------------------------------------------------------------------ */
/* C01(a2): divbwt() against a reference Burrows-Wheeler transform           */
/* The reference sorts the n cyclic rotations by prefix doubling (ranks of   */
/* 2^k-byte prefixes, qsort per round); L[i] = byte before rotation i.  The  */
/* returned origin must name a row equal to the input (any row of the tie    */
/* block when the input is a power of a shorter word).                       */

static unsigned long bwt_strings, bwt_bytes, bwt_fam[8];
static int *bw_rank, *bw_tmp, *bw_rot, bw_k, bw_n;
static int32_t *bw_SA, *bw_bucket;
static uint8_t *bw_T;
#define BW_MAX 20000

static int
bw_cmp(const void *pa, const void *pb)
{
  int a = *(const int *)pa, b = *(const int *)pb, x, y;
  if (bw_rank[a] != bw_rank[b]) return bw_rank[a] < bw_rank[b] ? -1 : 1;
  x = a + bw_k; if (x >= bw_n) x -= bw_n;
  y = b + bw_k; if (y >= bw_n) y -= bw_n;
  return bw_rank[x] < bw_rank[y] ? -1 : bw_rank[x] > bw_rank[y];
}

static void
bwt_one(const uint8_t *d, int n, int fam)
{
  int i, pidx;
  if (!bw_rank) {
    bw_rank = malloc(sizeof(int) * BW_MAX); bw_tmp = malloc(sizeof(int) * BW_MAX); bw_rot = malloc(sizeof(int) * BW_MAX);
    bw_SA = malloc(sizeof(int32_t) * (BW_MAX + 64)); bw_bucket = malloc(sizeof(int32_t) * (65536 + 256)); bw_T = malloc(BW_MAX + 64);
  }
  if (n < 1 || n > BW_MAX) abort();
  bwt_strings++; bwt_bytes += n; bwt_fam[fam]++;
  /* reference */
  bw_n = n;
  for (i = 0; i < n; i++) { bw_rot[i] = i; bw_rank[i] = d[i]; }
  for (bw_k = 1;; bw_k *= 2) {
    qsort(bw_rot, n, sizeof(int), bw_cmp);
    bw_tmp[bw_rot[0]] = 0;
    for (i = 1; i < n; i++)
      bw_tmp[bw_rot[i]] = bw_tmp[bw_rot[i - 1]] + (bw_cmp(&bw_rot[i - 1], &bw_rot[i]) != 0);
    memcpy(bw_rank, bw_tmp, sizeof(int) * n);
    if (bw_rank[bw_rot[n - 1]] == n - 1 || 2 * bw_k >= n) break;   /* ranks now cover 2*bw_k >= n bytes; bw_k < n keeps x, y in range */
  }
  /* implementation */
  memcpy(bw_T, d, n);
  memset(bw_T + n, 0xEE, 32);
  for (i = 0; i < n + 64; i++) bw_SA[i] = 0x5a5a5a5a;
  pidx = divbwt(bw_T, bw_SA, bw_bucket, n);
  if (pidx < 0 || pidx >= n) {
    VIOL("bwt: family %d n=%d input %.*s: origin %d out of range", fam, n, n < 48 ? n : 48, (const char *)d, pidx);
    return;
  }
  if (bw_rank[bw_rot[pidx]] != bw_rank[0]) {
    VIOL("bwt: family %d n=%d input %.*s: origin %d names rotation %d, which differs from the input", fam, n, n < 48 ? n : 48, (const char *)d, pidx, bw_rot[pidx]);
    return;
  }
  for (i = 0; i < n; i++) {
    int r = bw_rot[i] ? bw_rot[i] - 1 : n - 1;
    if ((uint32_t)bw_SA[i] != d[r]) {
      VIOL("bwt: family %d n=%d input %.*s: transformed byte %d is %d, sorted rotations give %d", fam, n, n < 48 ? n : 48, (const char *)d, i, (int)bw_SA[i], d[r]);
      return;
    }
  }
  for (i = n; i < n + 64; i++)
    if (bw_SA[i] != 0x5a5a5a5a) { VIOL("bwt: family %d n=%d: SA[%d] beyond the block was written", fam, n, i); return; }
}

static void
leg_bwt(void)
{
  static uint8_t buf[BW_MAX + 8], gen[BW_MAX + 8];
  unsigned len;
  int i, n;
  /* family 0: every string over {a,b}; family 1: over {a,b,c} */
  for (len = 1; len <= (tier_thorough ? 20u : tier_san ? 12u : 16u); len++) {
    unsigned long v, nv = 1ul << len;
    for (v = 0; v < nv; v++) {
      for (i = 0; i < (int)len; i++) buf[i] = 'a' + ((v >> i) & 1);
      bwt_one(buf, len, 0);
    }
  }
  for (len = 1; len <= (tier_thorough ? 12u : tier_san ? 7u : 10u); len++) {
    unsigned long v, nv = 1;
    for (i = 0; i < (int)len; i++) nv *= 3;
    for (v = 0; v < nv; v++) {
      unsigned long t = v;
      for (i = 0; i < (int)len; i++) { buf[i] = 'a' + t % 3; t /= 3; }
      bwt_one(buf, len, 1);
    }
  }
  /* family 2: powers of every word over {a,b} of length 1..P, cut at n, with no / one changed byte:
     long common prefixes between all suffixes -- the tandem-repeat sorter and the merge of sorted blocks */
  {
    static const int ns_q[] = { 40, 300, 2300, 0 }, ns_t[] = { 40, 300, 1100, 2300, 5000, 12000, 0 }, ns_s[] = { 40, 700, 0 };
    const int *ns = tier_thorough ? ns_t : tier_san ? ns_s : ns_q;
    unsigned P = tier_thorough ? 9 : tier_san ? 4 : 7;
    for (len = 1; len <= P; len++) {
      unsigned long v;
      for (v = 0; v < (1ul << len); v++) {
        int ni;
        for (ni = 0; ns[ni]; ni++) {
          int pert;
          n = ns[ni];
          for (i = 0; i < n; i++) buf[i] = 'a' + ((v >> (i % len)) & 1);
          for (pert = 0; pert < 9; pert++) {
            static const int where[4] = { 0, 1, 2, 3 };
            int pos = pert == 0 ? -1 : where[(pert - 1) % 4] == 0 ? 0 : where[(pert - 1) % 4] == 1 ? n / 2 : where[(pert - 1) % 4] == 2 ? n - len - 1 : n - 1;
            uint8_t old;
            if (pert && pos < 0) continue;
            if (pert && !tier_thorough && n >= 2000 && (v + pert) % 3) continue;
            if (pert) { old = buf[pos]; buf[pos] = pert <= 4 ? (old == 'a' ? 'b' : 'a') : 'c'; }
            bwt_one(buf, n, 2);
            if (pert) buf[pos] = old;
          }
        }
      }
    }
  }
  /* family 3: every prefix of the Fibonacci, Thue-Morse, paper-folding and period-doubling words */
  {
    int N = tier_thorough ? 6000 : tier_san ? 400 : 1500, w;
    for (w = 0; w < 4; w++) {
      if (w == 0) { int a = 1, b = 2; gen[0] = 'a'; gen[1] = 'b';        /* Fibonacci: s_k = s_{k-1} s_{k-2} */
        while (b < N) { int c = a + b > N ? N - b : a; memcpy(gen + b, gen, c); { int t = b; b += c; a = t; } if (c < a && b >= N) break; } }
      else if (w == 1) for (i = 0; i < N; i++) gen[i] = 'a' + (__builtin_popcount(i) & 1);
      else if (w == 2) for (i = 0; i < N; i++) { unsigned k = i + 1; while (!(k & 1)) k >>= 1; gen[i] = 'a' + ((k >> 1) & 1); }
      else for (i = 0; i < N; i++) gen[i] = 'a' + (__builtin_ctz(i + 1) & 1);
      for (n = 1; n <= N; n++) bwt_one(gen, n, 3);
    }
  }
  /* family 4: many buckets: i*k mod 256 for every odd k (and k with small period), three lengths */
  {
    int k;
    for (k = 0; k < 256; k += (tier_thorough ? 1 : tier_san ? 16 : 3)) {
      static const int ls[] = { 255, 256, 257, 1000, 3000 };
      int li;
      for (li = 0; li < 5; li++) {
        n = ls[li];
        for (i = 0; i < n; i++) buf[i] = (uint8_t)(i * k + (i >> 8));
        bwt_one(buf, n, 4);
      }
    }
  }
  /* family 5: two or three runs x^i y^j x^k (what the initial run-length coder leaves are runs up to 4, 5;
     longer ones reach divbwt through the count bytes), and single-symbol blocks */
  {
    int a, b, c;
    static const int rl[] = { 0, 1, 2, 3, 4, 5, 7, 8, 9, 16, 17, 255, 256, 1023, 1024, 1025, 2050 };
    int nr = sizeof rl / sizeof *rl;
    for (a = 1; a < nr; a++) for (b = 0; b < nr; b++) for (c = 0; c < nr; c++) {
      n = 0;
      if (tier_san && (a + b + c) % 3) continue;
      memset(buf + n, 'x', rl[a]); n += rl[a];
      memset(buf + n, 'y', rl[b]); n += rl[b];
      memset(buf + n, 'x', rl[c]); n += rl[c];
      bwt_one(buf, n, 5);
      if (rl[b]) { buf[rl[a]] = 'z'; bwt_one(buf, n, 5); }
    }
  }
  printf("STAT leg=bwt strings=%lu bytes=%lu binary=%lu ternary=%lu powers=%lu automatic_words=%lu many_buckets=%lu runs=%lu violations=%lu\n",
         bwt_strings, bwt_bytes, bwt_fam[0], bwt_fam[1], bwt_fam[2], bwt_fam[3], bwt_fam[4], bwt_fam[5], nviol);
}

/* ------------------------------------------------------------------------ */
/* C09(a): retrieve() and emit() suspended at every position                 */

static unsigned long c09_streams, c09_blocks, c09_retr_runs, c09_emit_runs, c09_resume[8];

struct oneshot { int rv; uint32_t crc; unsigned block_size, bwt_idx; int rand; size_t outn; uint8_t *out; unsigned endpos; };

/* run retrieve over words[0..nw) cut at c1,c2 (word indexes, 0 = none) */
static int
retr_split(const uint32_t *words, size_t nw, unsigned live0, uint64_t buff0, size_t c1, size_t c2,
           struct decoder_state *ds, unsigned *endpos)
{
  struct bitstream bs;
  size_t cuts[4], nc = 0, i;
  int rv = MORE;
  if (c1) cuts[nc++] = c1;
  if (c2) cuts[nc++] = c2;
  cuts[nc++] = nw;
  decoder_init(ds);
  bs.live = live0; bs.buff = buff0; bs.block = NULL; bs.eof = 0;
  bs.data = words;
  for (i = 0; i < nc; i++) {
    /* each piece is its own exact-size allocation: reading past it is an error ASan sees */
    size_t from = (size_t)(bs.data - words), cnt = cuts[i] - from;
    uint32_t *piece = malloc(cnt * 4 + 1);
    memcpy(piece, words + from, cnt * 4);
    bs.data = piece;
    bs.limit = piece + cnt;
    rv = retrieve(ds, &bs);
    {
      size_t used = (size_t)(bs.data - piece);
      free(piece);
      bs.data = words + from + used;
    }
    if (rv != MORE)
      break;
    if (ds->internal_state)
      c09_resume[((unsigned *)ds->internal_state)[0] & 7]++;
    if ((size_t)(bs.data - words) != cuts[i]) {
      VIOL("retrieve: returned MORE with %zu words of the piece unread", cuts[i] - (size_t)(bs.data - words));
      return -100;
    }
  }
  if (rv == MORE) {
    bs.data = bs.limit = NULL;
    bs.eof = 1;
    rv = retrieve(ds, &bs);
    *endpos = 32 * (unsigned)nw - bs.live;
  }
  else
    *endpos = 32 * (unsigned)(bs.data - words) - bs.live;
  return rv;
}

static void
c09_block(const uint32_t *words, size_t nw, unsigned live0, uint64_t buff0, const char *name)
{
  struct decoder_state ds;
  struct oneshot ref;
  size_t c1, c2, step;
  unsigned ep;
  int rv;
  c09_blocks++;
  ref.rv = retr_split(words, nw, live0, buff0, 0, 0, &ds, &ref.endpos);
  ref.crc = 0; ref.outn = 0; ref.out = NULL;
  ref.block_size = ds.block_size; ref.bwt_idx = ds.bwt_idx; ref.rand = ds.rand;
  c09_retr_runs++;
  if (ref.rv == OK) {
    /* one-shot emit */
    size_t cap = 1 << 20, room;
    decode(&ds);
    ref.out = malloc(cap);
    for (;;) {
      room = cap - ref.outn;
      rv = emit(&ds, ref.out + ref.outn, &room);
      ref.outn = cap - room;
      if (rv != MORE) break;
      cap *= 2;
      ref.out = realloc(ref.out, cap);
    }
    ref.rv = rv;
    ref.crc = ds.crc;
  }
  cx_decoder_free(&ds);
  /* every 1-, 2-, 3-piece split of the input at word granularity */
  step = nw > 60 ? nw / 40 : 1;
  for (c1 = 1; c1 < nw; c1 += (nw > 200 ? step : 1)) {
    for (c2 = 0; c2 < nw; c2 += step) {
      struct decoder_state d2;
      if (c2 && c2 <= c1) continue;
      if (nw > 24 && c2 && (c2 - c1) > 3 && (nw - c2) > 3 && c2 % 5) continue;
      rv = retr_split(words, nw, live0, buff0, c1, c2, &d2, &ep);
      c09_retr_runs++;
      if (rv == -100) { cx_decoder_free(&d2); return; }
      if ((rv == OK) != (ref.rv == OK || ref.rv == ERR_RUNLEN) && !(rv != OK && ref.rv != OK && ref.rv != ERR_RUNLEN)) {
        VIOL("retrieve(%s): split at words %zu,%zu gives %d, one-shot gives %d", name, c1, c2, rv, ref.rv);
        cx_decoder_free(&d2);
        return;
      }
      if (rv != OK && ref.rv != OK && ref.rv != ERR_RUNLEN && rv != ref.rv && !(rv == ERR_EOF || ref.rv == ERR_EOF)) {
        VIOL("retrieve(%s): split at words %zu,%zu fails with %d, one-shot with %d", name, c1, c2, rv, ref.rv);
      }
      if (rv == OK) {
        if (d2.block_size != ref.block_size || d2.bwt_idx != ref.bwt_idx || d2.rand != ref.rand || ep != ref.endpos) {
          VIOL("retrieve(%s): split at %zu,%zu: block size %u/%u index %u/%u end bit %u/%u", name, c1, c2, d2.block_size,
               ref.block_size, d2.bwt_idx, ref.bwt_idx, ep, ref.endpos);
          cx_decoder_free(&d2);
          return;
        }
        if (c2 == 0 || (c1 + c2) % 7 == 0) {
          /* decode and emit in one piece and compare */
          size_t room = ref.outn + 16, got;
          uint8_t *o = malloc(room + 1);
          int r2;
          decode(&d2);
          got = room;
          r2 = emit(&d2, o, &got);
          got = room - got;
          if (ref.rv == ERR_RUNLEN ? r2 != ERR_RUNLEN && r2 != MORE
              : (r2 != ref.rv || got != ref.outn || memcmp(o, ref.out, got) != 0 || (r2 == OK && d2.crc != ref.crc))) {
            VIOL("retrieve(%s): split at %zu,%zu decodes to different bytes (%zu vs %zu, rv %d vs %d)", name, c1, c2, got, ref.outn, r2, ref.rv);
            free(o); cx_decoder_free(&d2);
            return;
          }
          free(o);
        }
      }
      cx_decoder_free(&d2);
    }
  }
  /* emit(): every composition of the output into buffer sizes (small outputs),
     every 2-piece split and fixed sizes otherwise */
  if (ref.rv == OK) {
    size_t n = ref.outn;
    unsigned long comp, ncomp = (n >= 1 && n <= 13) ? (1ul << (n - 1)) : 0;
    static const size_t fixed[] = { 1, 2, 3, 4, 5, 6, 7, 255, 256, 257, 4096 };
    size_t total = ncomp + (n > 13 ? (n < 3000 ? n - 1 : 600) : 0) + sizeof fixed / sizeof *fixed, t;
    for (t = 0; t < total; t++) {
      struct decoder_state d2;
      uint8_t *o = malloc(n + 4100);
      size_t pos = 0, piece = 0;
      int r2 = MORE, k = 0;
      unsigned ep2;
      if (retr_split(words, nw, live0, buff0, 0, 0, &d2, &ep2) != OK) { free(o); cx_decoder_free(&d2); break; }
      decode(&d2);
      c09_emit_runs++;
      while (r2 == MORE) {
        size_t sz, room;
        uint8_t *tight;
        if (t < ncomp) {
          /* composition number t: bit i set = cut after byte i+1 */
          sz = 1;
          while (pos + sz < n && !((t >> (pos + sz - 1)) & 1)) sz++;
        }
        else if (t < total - sizeof fixed / sizeof *fixed) {
          size_t cut = n < 3000 ? (t - ncomp + 1) : 1 + (t - ncomp) * (n / 600);
          sz = k == 0 ? cut : n + 8;
        }
        else
          sz = fixed[t - (total - sizeof fixed / sizeof *fixed)];
        if (sz == 0) sz = 1;
        tight = malloc(sz);
        room = sz;
        r2 = emit(&d2, tight, &room);
        piece = sz - room;
        if (pos + piece > n + 4096) { VIOL("emit(%s): writes more than the block holds", name); free(tight); break; }
        memcpy(o + pos, tight, piece);
        free(tight);
        pos += piece;
        if (r2 == MORE && room != 0) { VIOL("emit(%s): MORE with %zu bytes of room left", name, room); break; }
        k++;
        if (k > 100000) { VIOL("emit(%s): does not finish", name); break; }
      }
      if (r2 != ref.rv || pos != n || memcmp(o, ref.out, n) != 0 || (r2 == OK && d2.crc != ref.crc))
        VIOL("emit(%s): buffers pattern %zu gives rv %d, %zu bytes, crc %08x; one-shot rv %d, %zu bytes, crc %08x", name, t, r2, pos,
             d2.crc, ref.rv, n, ref.crc);
      free(o);
      cx_free_tt(d2.tt, 900000);
      free(d2.internal_state);
    }
  }
  free(ref.out);
}

static void
leg_c09(const char *path)
{
  FILE *f = fopen(path, "rb");
  uint8_t *data;
  long n;
  size_t off = 0;
  if (!f) { printf("STAT leg=c09 error=nofile\n"); return; }
  fseek(f, 0, SEEK_END); n = ftell(f); fseek(f, 0, SEEK_SET);
  data = malloc(n + 1);
  if (fread(data, 1, n, f) != (size_t)n) return;
  fclose(f);
  /* records: u32 len, bytes = one complete stream.  Every block of it is located
     with parse() and then handed to retrieve() in pieces */
  while (off + 4 <= (size_t)n) {
    uint32_t len;
    memcpy(&len, data + off, 4); off += 4;
    {
      size_t nw = (len - 4 + 3) / 4, pos;
      uint32_t *w = calloc(nw + 2, 4);
      struct parser_state ps;
      struct header hd;
      struct bitstream bs;
      unsigned garbage, nblk = 0;
      char name[64];
      memcpy(w, data + off + 4, len - 4);          /* after the 4-byte stream header */
      c09_streams++;
      parser_init(&ps, data[off + 3] - '0', 0);
      bs.live = 0; bs.buff = 0; bs.block = NULL; bs.eof = 0; bs.data = w; bs.limit = w + nw;
      for (;;) {
        int rv = parse(&ps, &hd, &bs, &garbage);
        struct decoder_state ds;
        struct bitstream b2;
        unsigned ep;
        if (rv != OK)
          break;
        /* the block's data begin here: remaining words from bs.data, with bs.live bits in the buffer */
        pos = (size_t)(bs.data - w);
        snprintf(name, sizeof name, "stream %lu block %u", c09_streams, nblk++);
        c09_block(w + pos, nw - pos, bs.live, bs.buff, name);
        /* advance the parser's bit stream over the block (one shot) */
        decoder_init(&ds);
        b2 = bs;
        rv = retrieve(&ds, &b2);
        if (rv == MORE) { b2.data = b2.limit = NULL; b2.eof = 1; rv = retrieve(&ds, &b2); }
        cx_decoder_free(&ds);
        if (rv != OK) break;
        if (b2.data == NULL) break;
        bs = b2;
        bs.eof = 0;
        (void)ep;
        if (nblk > 8) break;
      }
      free(w);
    }
    off += len;
  }
  printf("STAT leg=c09 streams=%lu blocks=%lu retrieve_runs=%lu emit_runs=%lu resumed_at=%lu,%lu,%lu,%lu,%lu,%lu,%lu violations=%lu\n",
         c09_streams, c09_blocks, c09_retr_runs, c09_emit_runs, c09_resume[0], c09_resume[1], c09_resume[2], c09_resume[3],
         c09_resume[4], c09_resume[5], c09_resume[6], nviol);
}

int
main(int argc, char **argv)
{
  if (argc < 3)
    return 2;
  setvbuf(stdout, NULL, _IOLBF, 0);
  rcrc_init();
  tier_thorough = !strcmp(argv[2], "thorough");
  tier_san = !strcmp(argv[2], "san");
  if (!strcmp(argv[1], "c14")) leg_c14();
  else if (!strcmp(argv[1], "c04")) leg_c04();
  else if (!strcmp(argv[1], "c20")) leg_c20();
  else if (!strcmp(argv[1], "c01")) leg_c01();
  else if (!strcmp(argv[1], "bwt")) leg_bwt();
  else if (!strcmp(argv[1], "c09") && argc > 3) leg_c09(argv[3]);
  else return 2;
  return 0;
}
