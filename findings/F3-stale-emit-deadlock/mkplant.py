#!/usr/bin/env python3
"""
mkplant.py -- build a valid .bz2 file in which every compressed block carries,
inside its entropy-coded data, a planted bit pattern that looks exactly like a
complete bzip2 block: block magic 0x314159265359, a CRC, and a well-formed
block body that decodes to 900000 bytes before run-length expansion and to
46.6 MB (0xFF bytes) after it -- the classic "ch255" decompression bomb.

Usage: mkplant.py OUT NBLOCKS [FILLER]

The carrier blocks use a hand-made prefix code: the 8-bit codes 0x00..0xFD
stand for the symbols 2..255 and the 9-bit codes 0x1FC..0x1FF for RUNA, RUNB,
symbol 256 and EOB.  Hence any bit string that never shows nine 1-bits at a
code boundary can be spelled out verbatim as the entropy-coded data of a
carrier block.  Each carrier block holds FILLER padding symbols followed by
one planted block.

The resulting file is a perfectly valid single-stream bzip2 file (bzip2 -t
accepts it, every decompressor produces the same output).  The planted
patterns are not block boundaries; a decompressor that scans ahead for block
magics (lbzip2 with two or more workers) will speculatively decode them and
must throw the result away later.
"""
import sys

MAGIC = 0x314159265359
EOS = 0x177245385090
RUNA, RUNB = 0, 1


def crc_table():
    t = []
    for i in range(256):
        c = i << 24
        for _ in range(8):
            c = ((c << 1) ^ 0x04C11DB7) if c & 0x80000000 else (c << 1)
            c &= 0xFFFFFFFF
        t.append(c)
    return t


CRCT = crc_table()


def bz_crc(data):
    c = 0xFFFFFFFF
    for b in data:
        c = ((c << 8) & 0xFFFFFFFF) ^ CRCT[(c >> 24) ^ b]
    return c ^ 0xFFFFFFFF


class Bits:
    def __init__(self):
        self.v = 0
        self.n = 0

    def put(self, nbits, val):
        assert 0 <= val < (1 << nbits)
        self.v = (self.v << nbits) | val
        self.n += nbits

    def bitstring(self):
        return format(self.v, '0%db' % self.n) if self.n else ''

    def tobytes(self):
        pad = -self.n % 8
        return ((self.v << pad).to_bytes((self.n + pad) // 8, 'big'))


def planted_block():
    """A complete, well-formed block: 900000 x 0xFF before run-length
    expansion.  Alphabet: RUNA (1 bit), RUNB (2 bits), EOB (2 bits)."""
    b = Bits()
    b.put(48, MAGIC)
    b.put(32, 0x01020304)       # CRC: never looked at for a planted block
    b.put(1, 0)                 # not randomised
    b.put(24, 0)                # origPtr
    b.put(16, 0x0001)           # only bytes 0xF0..0xFF ...
    b.put(16, 0x0001)           # ... and of those only 0xFF
    syms = []
    n = 900000
    while n > 0:
        if n & 1:
            syms.append(RUNA)
            n = (n - 1) // 2
        else:
            syms.append(RUNB)
            n = (n - 2) // 2
    b.put(3, 2)                 # two coding tables
    b.put(15, 1)                # one selector
    b.put(1, 0)
    for _ in range(2):
        b.put(5, 1)             # RUNA: 1 bit
        b.put(1, 0)
        b.put(2, 2)             # +1
        b.put(1, 0)             # RUNB: 2 bits
        b.put(1, 0)             # EOB: 2 bits
    for s in syms:
        if s == RUNA:
            b.put(1, 0)
        else:
            b.put(2, 2)
    b.put(2, 3)                 # EOB
    return b.bitstring()


def spell(bitstr):
    """Spell a bit string with carrier symbols.  Returns a list of
    (nbits, code, symbol)."""
    out = []
    i = 0
    s = bitstr + '0' * 16
    while i < len(bitstr):
        byte = int(s[i:i + 8], 2)
        if byte <= 0xFD:
            out.append((8, byte, byte + 2))
            i += 8
        else:
            code = int(s[i:i + 9], 2)
            if code == 0x1FF:
                raise ValueError("cannot spell nine 1-bits")
            out.append((9, code, {0x1FC: 0, 0x1FD: 1, 0x1FE: 256}[code]))
            i += 9
    return out


def decode_carrier(symbols):
    """What a carrier block decodes to (origPtr = 0)."""
    mtf = list(range(256))
    L = []
    run = 0
    shift = 0
    for s in symbols:
        if s <= 1:
            run += (s + 1) << shift
            shift += 1
            continue
        L.extend([mtf[0]] * run)
        run = shift = 0
        ch = mtf.pop(s - 1)
        mtf.insert(0, ch)
        L.append(ch)
    L.extend([mtf[0]] * run)
    n = len(L)
    cnt = [0] * 256
    for ch in L:
        cnt[ch] += 1
    cum = [0] * 256
    t = 0
    for i in range(256):
        cum[i] = t
        t += cnt[i]
    tt = [0] * n
    for i, ch in enumerate(L):
        tt[cum[ch]] = i
        cum[ch] += 1
    out = []
    pos = tt[0]
    for _ in range(n):
        out.append(L[pos])
        pos = tt[pos]
    res = bytearray()
    i = 0
    while i < n:
        ch = out[i]
        res.append(ch)
        i += 1
        run = 1
        while i < n and out[i] == ch and run < 4:
            res.append(ch)
            run += 1
            i += 1
        if run == 4:
            if i >= n:
                raise ValueError("block ends inside a run")
            res.extend(bytes([ch]) * out[i])
            i += 1
    return bytes(res)


def carrier_block(filler, salt):
    codes = []
    x = salt + 1
    for i in range(filler):
        # padding: high MTF positions keep the sequential decoder busy
        x = (x * 1103515245 + 12345) & 0x7FFFFFFF
        byte = 0x80 + ((x >> 16) % 0x7E)
        codes.append((8, byte, byte + 2))
    codes += spell(planted_block())
    codes.append((8, 0x40 + salt, 0x42 + salt))
    payload = decode_carrier([c[2] for c in codes])
    crc = bz_crc(payload)

    b = Bits()
    b.put(48, MAGIC)
    b.put(32, crc)
    b.put(1, 0)                 # not randomised
    b.put(24, 0)                # origPtr
    b.put(16, 0xFFFF)           # all 256 byte values in use
    for _ in range(16):
        b.put(16, 0xFFFF)
    nsel = (len(codes) + 1 + 49) // 50
    b.put(3, 2)                 # two coding tables
    b.put(15, nsel)
    for _ in range(nsel):
        b.put(1, 0)             # always table 0
    for _ in range(2):
        b.put(5, 9)             # RUNA: 9 bits
        b.put(1, 0)
        b.put(1, 0)             # RUNB: 9 bits
        b.put(2, 3)             # -1
        for _ in range(254):    # symbols 2..255: 8 bits
            b.put(1, 0)
        b.put(2, 2)             # +1
        b.put(1, 0)             # symbol 256: 9 bits
        b.put(1, 0)             # EOB: 9 bits
    # the padding is byte-sized codes: convert it in one go
    pad = bytes(c[1] for c in codes[:filler])
    if pad:
        b.put(8 * len(pad), int.from_bytes(pad, 'big'))
    for nbits, code, _ in codes[filler:]:
        b.put(nbits, code)
    b.put(9, 0x1FF)             # EOB
    return b, crc


def main():
    out = sys.argv[1]
    nblocks = int(sys.argv[2])
    filler = int(sys.argv[3]) if len(sys.argv) > 3 else 800000
    variants = [carrier_block(filler, salt) for salt in range(2)]
    acc = Bits()
    acc.put(32, 0x425A6839)     # "BZh9"
    comb = 0
    with open(out, 'wb') as f:
        for i in range(nblocks):
            blk, crc = variants[i % len(variants)]
            acc.put(blk.n, blk.v)
            comb = (((comb << 1) | (comb >> 31)) & 0xFFFFFFFF) ^ crc
            keep = acc.n % 8
            f.write((acc.v >> keep).to_bytes((acc.n - keep) // 8, 'big'))
            acc.v &= (1 << keep) - 1
            acc.n = keep
        acc.put(48, EOS)
        acc.put(32, comb)
        f.write(acc.tobytes())


if __name__ == '__main__':
    main()
