#!/bin/sh
# Reproducer for the PRE-EXISTING decompressor dead-lock described in
# DEADLOCK.md (not related to the C13 seed; the unmodified sources hang).
#
# usage: SEED/deadlock_repro.sh <path-to-source-tree>
#    or: LBZIP2=<path-to-binary> SEED/deadlock_repro.sh
# knobs (environment): RUNS (default 10), WORKERS (default 4),
#                      HANG_TIMEOUT seconds (default 60)
#
# Exit 1: at least one of RUNS runs of
#             lbzip2 -d -c -n $WORKERS junk500.bz2 >/dev/null
#         did not finish within HANG_TIMEOUT seconds (a normal run takes ~1 s).
# Exit 0: all runs finished.   Exit 2: setup problem / unexpected failure.
here=$(cd "$(dirname "$0")" && pwd)
tmp=$(mktemp -d "${TMPDIR:-/tmp}/c13dl.XXXXXX")
trap 'rm -rf "$tmp"' EXIT INT TERM

# lbzip2 itself reads options from $LBZIP2/$BZIP2/$BZIP.
bin=$LBZIP2
unset LBZIP2 BZIP2 BZIP
runs=${RUNS:-10}
workers=${WORKERS:-4}
limit=${HANG_TIMEOUT:-60}

if [ -z "$bin" ]; then
  if [ -z "$1" ]; then
    echo "usage: $0 <source-tree>   (or set LBZIP2=<binary>)" >&2
    exit 2
  fi
  src=$(cd "$1" && pwd) || exit 2
  if command -v ninja >/dev/null 2>&1; then gen="-G Ninja"; else gen=""; fi
  cmake -S "$src" -B "$tmp/build" $gen >/dev/null || exit 2
  cmake --build "$tmp/build" --target lbzip2 >/dev/null || exit 2
  bin=$tmp/build/lbzip2
fi

# 500 carrier blocks, each 6000 padding symbols + 80 junk plants (3.7 MB).
python3 "$here/mkjunk.py" "$tmp/junk500.bz2" 500 6000 80 || exit 2

# sanity: the file is valid and the sequential decoder handles it
"$bin" -d -c -n 1 "$tmp/junk500.bz2" >/dev/null || {
  echo "unexpected: -n 1 run failed" >&2; exit 2; }

hangs=0
i=1
while [ "$i" -le "$runs" ]; do
  timeout "$limit" "$bin" -d -c -n "$workers" "$tmp/junk500.bz2" >/dev/null
  rc=$?
  if [ "$rc" -eq 124 ]; then
    hangs=$((hangs + 1))
    echo "run $i: HANG (no exit within $limit s)"
    break                       # one hang is proof enough
  elif [ "$rc" -ne 0 ]; then
    echo "run $i: unexpected exit status $rc" >&2
    exit 2
  else
    echo "run $i: finished"
  fi
  i=$((i + 1))
done

if [ "$hangs" -gt 0 ]; then
  echo "DEADLOCK reproduced with -n $workers"
  exit 1
fi
echo "no hang in $runs runs with -n $workers"
exit 0
