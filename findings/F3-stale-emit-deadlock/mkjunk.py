#!/usr/bin/env python3
"""
mkjunk.py -- companion of mkplant.py for the pre-existing dead-lock described
in DEADLOCK.md.  Builds a valid .bz2 file whose carrier blocks hold FILLER
padding symbols followed by PLANTS "junk" plants:

    31 41 59 26 53 59   block magic
    00 00 00 00         "block CRC" (skipped by the scanner)
    00 00 00 00 00 00   rand=0, origPtr=0, empty symbol map -> the speculative
                        retrieve fails at once ("empty source alphabet")

Usage: mkjunk.py OUT NBLOCKS [FILLER [PLANTS]]      (defaults 6000, 80)
"""
import os
import sys

sys.path.insert(0, os.path.dirname(os.path.abspath(__file__)))
import mkplant as mp


def carrier_block(filler, plants, salt):
    codes = []
    x = salt
    for _ in range(filler):
        x = (x * 1103515245 + 12345) & 0x7FFFFFFF
        byte = 0x80 + ((x >> 16) % 0x7E)
        codes.append((8, byte, byte + 2))
    plant = [0x31, 0x41, 0x59, 0x26, 0x53, 0x59] + [0] * 10
    for _ in range(plants):
        codes += [(8, b, b + 2) for b in plant]
    codes.append((8, 0x40 + salt, 0x42 + salt))
    crc = mp.bz_crc(mp.decode_carrier([c[2] for c in codes]))

    b = mp.Bits()
    b.put(48, mp.MAGIC)
    b.put(32, crc)
    b.put(1, 0)
    b.put(24, 0)
    b.put(16, 0xFFFF)
    for _ in range(16):
        b.put(16, 0xFFFF)
    nsel = (len(codes) + 1 + 49) // 50
    b.put(3, 2)
    b.put(15, nsel)
    for _ in range(nsel):
        b.put(1, 0)
    for _ in range(2):
        b.put(5, 9)
        b.put(1, 0)
        b.put(1, 0)
        b.put(2, 3)
        for _ in range(254):
            b.put(1, 0)
        b.put(2, 2)
        b.put(1, 0)
        b.put(1, 0)
    body = bytes(c[1] for c in codes)       # all codes are 8 bits here
    b.put(8 * len(body), int.from_bytes(body, 'big'))
    b.put(9, 0x1FF)
    return b, crc


def main():
    out = sys.argv[1]
    nblocks = int(sys.argv[2])
    filler = int(sys.argv[3]) if len(sys.argv) > 3 else 6000
    plants = int(sys.argv[4]) if len(sys.argv) > 4 else 80
    variants = [carrier_block(filler, plants, salt) for salt in range(4)]
    acc = mp.Bits()
    acc.put(32, 0x425A6839)
    comb = 0
    with open(out, 'wb') as f:
        for i in range(nblocks):
            blk, crc = variants[i % len(variants)]
            acc.put(blk.n, blk.v)
            comb = (((comb << 1) | (comb >> 31)) & 0xFFFFFFFF) ^ crc
            keep = acc.n % 8
            f.write((acc.v >> keep).to_bytes((acc.n - keep) // 8, 'big'))
            acc.v &= (1 << keep) - 1
            acc.n = keep
        acc.put(48, mp.EOS)
        acc.put(32, comb)
        f.write(acc.tobytes())


if __name__ == '__main__':
    main()
